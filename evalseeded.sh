#!/bin/bash
# usage: evalseeded.sh <seeded-dir> [quick|thorough] <check-id>...
# Runs the given checks against /repo's HEAD plus <seeded-dir>/patch.diff, in a scratch
# worktree under /tmp (so /repo itself is never touched and other runs are not disturbed).
# With patch "-R:<file>" semantics: if <seeded-dir>/reverse exists the patch is applied with -R.
# Evidence and replays of these runs go to $VERIF_STATE/seeded-out/<name>/, not to /verif.
set -u
cd "$(dirname "$0")"
. ./env.sh
d="$(realpath "$1")"; shift
tier=quick
case "${1:-}" in quick|thorough) tier="$1"; shift;; esac
name="$(basename "$d")"
wt="/tmp/ev-$name"
git -C /repo worktree remove --force "$wt" 2>/dev/null
git -C /repo worktree add -q --detach "$wt" HEAD || exit 2
trap 'git -C /repo worktree remove --force "$wt"' EXIT
rflag=""; [ -e "$d/reverse" ] && rflag="-R"
git -C "$wt" apply $rflag "$d/patch.diff" || { echo "patch does not apply" >&2; exit 2; }
out="$VERIF_STATE/seeded-out/$name"; mkdir -p "$out"
for id in "$@"; do
  s=$(date +%s)
  VERIF_REPO="$wt" VERIF_OUT="$out" ./check "$id" "$tier" > "$out/$id.out" 2> "$out/$id.err"; rc=$?
  echo "$name $id $tier exit=$rc $(( $(date +%s) - s ))s $(grep -c '^VIOLATION' "$out/$id.out") violation line(s)" | tee -a "$VERIF_STATE/seeded-out/summary.txt"
done
