#!/bin/bash
# Offline setup: toolchain copy outside the module cache + simulator binary.
set -e
cd "$(dirname "$0")"
. ./env.sh
mkdir -p "$VERIF_STATE"
if [ ! -x "$VERIF_STATE/goroot/bin/go" ]; then
  SRC=/root/go/pkg/mod/golang.org/toolchain@v0.0.1-go1.26.2.linux-amd64
  rm -rf "$VERIF_STATE/goroot.tmp"
  cp -a "$SRC" "$VERIF_STATE/goroot.tmp"
  chmod -R u+w "$VERIF_STATE/goroot.tmp"
  mv "$VERIF_STATE/goroot.tmp" "$VERIF_STATE/goroot"
fi
(cd sim && go build -o "$VERIF_STATE/verifsim" ./cmd/verifsim)
# Build garble-sim from /repo and the quick-tier std templates once, so that no check pays for them.
"$VERIF_STATE/verifsim" prewarm
echo setup ok
