// Package verifrt is the shim every routed call in the simulator flavour of
// garble (and of go-internal's cache / lockedfile / filelock) goes through.
//
// Without VERIF_SIM_SOCK in the environment every function is a direct
// pass-through to the call it replaces. With it, the process registers with the
// simulator on start-up and parks at every gated call until the simulator
// releases it with a decision (perform / fail with errno / short write / torn
// write then wait to be killed / replace the tool run by a failing one).
package verifrt

import (
	"bufio"
	"encoding/json"
	"fmt"
	"net"
	"os"
	"strconv"
	"strings"
	"sync"
	"syscall"
)

// Msg is what a process sends to the simulator.
type Msg struct {
	T     string   `json:"t"`              // hello | ev | note
	Pid   int      `json:"pid,omitempty"`  // hello
	PPid  int      `json:"ppid,omitempty"` // hello
	Cli   string   `json:"cli,omitempty"`  // hello: VERIF_CLIENT
	Args  []string `json:"args,omitempty"` // hello: os.Args[1:]; exec: argv
	Pkg   string   `json:"pkg,omitempty"`  // hello: TOOLEXEC_IMPORTPATH
	Site  string   `json:"site,omitempty"`
	Op    string   `json:"op,omitempty"`
	Path  string   `json:"path,omitempty"`
	Path2 string   `json:"path2,omitempty"`
	N     int64    `json:"n,omitempty"`
	Flag  int      `json:"flag,omitempty"`
	Err   string   `json:"err,omitempty"`  // note: result of the operation
	Key   string   `json:"key,omitempty"`  // cache notes
	Sum   string   `json:"sum,omitempty"`  // cache notes: content hash
	Code  int      `json:"code,omitempty"` // exit / exec result
}

// Decision is what the simulator answers to a gated event.
type Decision struct {
	D     string `json:"d"` // go | fail | short | torn | toolfail
	Errno int    `json:"errno,omitempty"`
	N     int64  `json:"n,omitempty"`
}

var (
	active bool
	mu     sync.Mutex
	conn   net.Conn
	rd     *bufio.Reader
	watch  []string
)

func init() {
	sock := os.Getenv("VERIF_SIM_SOCK")
	if sock == "" {
		return
	}
	c, err := net.Dial("unix", sock)
	if err != nil {
		fmt.Fprintf(os.Stderr, "verifrt: cannot reach simulator: %v\n", err)
		os.Exit(97)
	}
	conn = c
	rd = bufio.NewReader(c)
	active = true
	if w := os.Getenv("VERIF_WATCH"); w != "" {
		watch = strings.Split(w, ":")
	}
	args := os.Args[1:]
	if len(args) > 24 {
		args = args[:24]
	}
	cwd, _ := os.Getwd()
	roundTrip(Msg{T: "hello", Pid: os.Getpid(), PPid: os.Getppid(), Cli: os.Getenv("VERIF_CLIENT"),
		Args: args, Pkg: os.Getenv("TOOLEXEC_IMPORTPATH"), Path: cwd})
}

// Active reports whether this process runs under the simulator.
func Active() bool { return active }

func send(m Msg) {
	b, _ := json.Marshal(m)
	b = append(b, '\n')
	if _, err := conn.Write(b); err != nil {
		// The simulator went away: nothing sensible is left to do.
		os.Exit(98)
	}
}

func roundTrip(m Msg) Decision {
	mu.Lock()
	defer mu.Unlock()
	send(m)
	line, err := rd.ReadBytes('\n')
	if err != nil {
		os.Exit(98)
	}
	var d Decision
	if err := json.Unmarshal(line, &d); err != nil {
		os.Exit(98)
	}
	return d
}

// Note sends a non-blocking notification to the simulator.
func Note(m Msg) { note(m) }

func note(m Msg) {
	if !active {
		return
	}
	m.T = "note"
	mu.Lock()
	send(m)
	mu.Unlock()
}

func gate(site, op, path, path2 string, n int64, flag int) Decision {
	return roundTrip(Msg{T: "ev", Site: site, Op: op, Path: path, Path2: path2, N: n, Flag: flag})
}

func gateArgs(site, op, path string, args []string) Decision {
	if len(args) > 40 {
		args = args[:40]
	}
	return roundTrip(Msg{T: "ev", Site: site, Op: op, Path: path, Args: args})
}

// parkForever is reached after a torn operation: the simulator kills us.
func parkForever(site, op, path string) {
	roundTrip(Msg{T: "ev", Site: site, Op: op + "-torn-done", Path: path})
	select {}
}

func watched(p string) bool {
	if len(watch) == 0 {
		return true
	}
	if !strings.HasPrefix(p, "/") {
		if wd, err := os.Getwd(); err == nil {
			p = wd + "/" + p
		}
	}
	for _, w := range watch {
		if w != "" && (p == w || strings.HasPrefix(p, w+"/")) {
			return true
		}
	}
	return false
}

func errStr(err error) string {
	if err == nil {
		return ""
	}
	return err.Error()
}

func pathErr(op, path string, errno int) error {
	return &os.PathError{Op: op, Path: path, Err: syscall.Errno(errno)}
}

func fdPath(fd int) string {
	p, err := os.Readlink("/proc/self/fd/" + strconv.Itoa(fd))
	if err != nil {
		return "fd:" + strconv.Itoa(fd)
	}
	return p
}
