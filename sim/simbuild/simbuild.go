// Package simbuild turns /repo's current working tree into the simulator
// flavour of garble ("garble-sim"): scratch copy -> type-directed rewrite ->
// go build with the runtime randomness overlay. Results are cached by a hash of
// every input, so several checks on the same tree share one build.
package simbuild

import (
	"crypto/sha256"
	"encoding/hex"
	"encoding/json"
	"fmt"
	"io"
	"io/fs"
	"os"
	"os/exec"
	"path/filepath"
	"sort"
	"strings"
	"syscall"

	"verif.local/sim/instrument"
	"verif.local/sim/rt"
)

const goInternalMod = "github.com/rogpeppe/go-internal@v1.15.0"

type Result struct {
	Bin    string // path of garble-sim
	Key    string // hash of all inputs
	Report *instrument.Report
	Cached bool
}

func StateDir() string {
	if d := os.Getenv("VERIF_STATE"); d != "" {
		return d
	}
	return "/root/.cache/verif-garble"
}

func GoRoot() string { return filepath.Join(StateDir(), "goroot") }

// VerifDir is the root of the verification tree (where sim/, corpus/ live).
func VerifDir() string {
	if d := os.Getenv("VERIF_DIR"); d != "" {
		return d
	}
	return "/verif"
}

// GoEnv is the offline Go environment on the toolchain copy.
func GoEnv() []string {
	env := []string{}
	for _, kv := range os.Environ() {
		k, _, _ := strings.Cut(kv, "=")
		switch k {
		case "GOFLAGS", "GOPROXY", "GOSUMDB", "GOTOOLCHAIN", "GOROOT", "PATH", "GOCACHE", "GARBLE_CACHE",
			"VERIF_SIM_SOCK", "VERIF_RTSEED", "VERIF_CLIENT", "VERIF_WATCH", "GOGARBLE", "GARBLE_EXPERIMENTAL_CONTROLFLOW", "TMPDIR":
			continue
		}
		env = append(env, kv)
	}
	return append(env,
		"GOFLAGS=-mod=mod", "GOPROXY=off", "GOSUMDB=off", "GOTOOLCHAIN=local", "GOTELEMETRY=off",
		"GOROOT="+GoRoot(),
		"PATH="+filepath.Join(GoRoot(), "bin")+":"+os.Getenv("PATH"),
	)
}

// EnsureGoRoot makes sure the toolchain copy outside the module cache exists.
func EnsureGoRoot() error {
	if _, err := os.Stat(filepath.Join(GoRoot(), "bin", "go")); err == nil {
		return nil
	}
	src := "/root/go/pkg/mod/golang.org/toolchain@v0.0.1-go1.26.2.linux-amd64"
	if _, err := os.Stat(src); err != nil {
		return fmt.Errorf("toolchain source %s missing: %v", src, err)
	}
	if err := os.MkdirAll(StateDir(), 0o755); err != nil {
		return err
	}
	tmp := GoRoot() + fmt.Sprintf(".tmp%d", os.Getpid())
	os.RemoveAll(tmp)
	if out, err := exec.Command("cp", "-a", src, tmp).CombinedOutput(); err != nil {
		return fmt.Errorf("copy toolchain: %v: %s", err, out)
	}
	if out, err := exec.Command("chmod", "-R", "u+w", tmp).CombinedOutput(); err != nil {
		return fmt.Errorf("chmod toolchain: %v: %s", err, out)
	}
	if err := os.Rename(tmp, GoRoot()); err != nil {
		os.RemoveAll(tmp)
		if _, err2 := os.Stat(filepath.Join(GoRoot(), "bin", "go")); err2 == nil {
			return nil // somebody else won the race
		}
		return err
	}
	return nil
}

func hashTree(h io.Writer, root string, skip func(rel string, d fs.DirEntry) bool) error {
	var files []string
	err := filepath.WalkDir(root, func(p string, d fs.DirEntry, err error) error {
		if err != nil {
			return err
		}
		rel, _ := filepath.Rel(root, p)
		if rel != "." && skip(rel, d) {
			if d.IsDir() {
				return filepath.SkipDir
			}
			return nil
		}
		if d.Type().IsRegular() {
			files = append(files, rel)
		}
		return nil
	})
	if err != nil {
		return err
	}
	sort.Strings(files)
	for _, rel := range files {
		b, err := os.ReadFile(filepath.Join(root, rel))
		if err != nil {
			return err
		}
		fmt.Fprintf(h, "%s %d\n", rel, len(b))
		h.Write(b)
	}
	return nil
}

func repoSkip(rel string, d fs.DirEntry) bool {
	base := filepath.Base(rel)
	if d.IsDir() {
		return base == ".git" || base == "testdata" || base == "docs" || base == "scripts" || base == ".github"
	}
	if strings.HasSuffix(base, "_test.go") {
		return true
	}
	return false
}

func inputKey(repo string) (string, error) {
	h := sha256.New()
	fmt.Fprintln(h, "simbuild v3")
	if err := hashTree(h, repo, repoSkip); err != nil {
		return "", err
	}
	for _, sub := range []string{"sim/verifrt", "sim/instrument", "sim/rt"} {
		fmt.Fprintln(h, "--", sub)
		if err := hashTree(h, filepath.Join(VerifDir(), sub), func(string, fs.DirEntry) bool { return false }); err != nil {
			return "", err
		}
	}
	return hex.EncodeToString(h.Sum(nil))[:24], nil
}

func copyTree(src, dst string, skip func(rel string, d fs.DirEntry) bool) error {
	return filepath.WalkDir(src, func(p string, d fs.DirEntry, err error) error {
		if err != nil {
			return err
		}
		rel, _ := filepath.Rel(src, p)
		if rel != "." && skip != nil && skip(rel, d) {
			if d.IsDir() {
				return filepath.SkipDir
			}
			return nil
		}
		target := filepath.Join(dst, rel)
		if d.IsDir() {
			return os.MkdirAll(target, 0o755)
		}
		if !d.Type().IsRegular() {
			return nil
		}
		b, err := os.ReadFile(p)
		if err != nil {
			return err
		}
		return os.WriteFile(target, b, 0o644)
	})
}

// ScratchBase is where per-run and per-build scratch directories live.
func ScratchBase() string {
	if d := os.Getenv("VERIF_SCRATCH"); d != "" {
		return d
	}
	if fi, err := os.Stat("/dev/shm"); err == nil && fi.IsDir() {
		return "/dev/shm"
	}
	return filepath.Join(StateDir(), "run")
}

// Build returns the garble-sim binary for repo's current working tree.
func Build(repo string, logw io.Writer) (*Result, error) {
	if err := EnsureGoRoot(); err != nil {
		return nil, err
	}
	key, err := inputKey(repo)
	if err != nil {
		return nil, err
	}
	outDir := filepath.Join(StateDir(), "bin", key)
	bin := filepath.Join(outDir, "garble")
	repPath := filepath.Join(outDir, "report.json")
	if _, err := os.Stat(bin); err == nil {
		rep := &instrument.Report{}
		if b, err := os.ReadFile(repPath); err == nil && json.Unmarshal(b, rep) == nil {
			return &Result{Bin: bin, Key: key, Report: rep, Cached: true}, nil
		}
	}
	// Serialise builds of the same key across processes.
	if err := os.MkdirAll(outDir, 0o755); err != nil {
		return nil, err
	}
	lf, err := os.OpenFile(filepath.Join(outDir, ".lock"), os.O_CREATE|os.O_RDWR, 0o644)
	if err != nil {
		return nil, err
	}
	defer lf.Close()
	if err := syscall.Flock(int(lf.Fd()), syscall.LOCK_EX); err != nil {
		return nil, err
	}
	defer syscall.Flock(int(lf.Fd()), syscall.LOCK_UN)
	if _, err := os.Stat(bin); err == nil {
		rep := &instrument.Report{}
		if b, err := os.ReadFile(repPath); err == nil && json.Unmarshal(b, rep) == nil {
			return &Result{Bin: bin, Key: key, Report: rep, Cached: true}, nil
		}
	}

	scratch, err := os.MkdirTemp(ScratchBase(), "verif-build-")
	if err != nil {
		return nil, err
	}
	defer os.RemoveAll(scratch)
	g := filepath.Join(scratch, "garble")
	if err := copyTree(repo, g, repoSkip); err != nil {
		return nil, err
	}
	gi := filepath.Join(scratch, "gointernal")
	if err := copyTree(filepath.Join("/root/go/pkg/mod", goInternalMod), gi, func(rel string, d fs.DirEntry) bool {
		return !d.IsDir() && strings.HasSuffix(rel, "_test.go")
	}); err != nil {
		return nil, err
	}
	vr := filepath.Join(scratch, "verifrt")
	if err := copyTree(filepath.Join(VerifDir(), "sim", "verifrt"), vr, nil); err != nil {
		return nil, err
	}
	mod, err := os.ReadFile(filepath.Join(g, "go.mod"))
	if err != nil {
		return nil, err
	}
	mod = append(mod, []byte(fmt.Sprintf("\nrequire verif.local/verifrt v0.0.0\nreplace verif.local/verifrt => %s\nreplace github.com/rogpeppe/go-internal => %s\n", vr, gi))...)
	if err := os.WriteFile(filepath.Join(g, "go.mod"), mod, 0o644); err != nil {
		return nil, err
	}
	env := GoEnv()
	rep, err := instrument.Run(g, env, []string{
		"./...",
		"github.com/rogpeppe/go-internal/cache",
		"github.com/rogpeppe/go-internal/lockedfile",
		"github.com/rogpeppe/go-internal/lockedfile/internal/filelock",
	})
	if err != nil {
		return nil, fmt.Errorf("instrument: %w", err)
	}
	patched, err := rt.Patched(GoRoot())
	if err != nil {
		return nil, err
	}
	randPath := filepath.Join(scratch, "rand_verif.go")
	if err := os.WriteFile(randPath, patched, 0o644); err != nil {
		return nil, err
	}
	ov, _ := json.Marshal(map[string]any{"Replace": map[string]string{filepath.Join(GoRoot(), "src", "runtime", "rand.go"): randPath}})
	ovPath := filepath.Join(scratch, "overlay.json")
	if err := os.WriteFile(ovPath, ov, 0o644); err != nil {
		return nil, err
	}
	tmpBin := bin + fmt.Sprintf(".tmp%d", os.Getpid())
	cmd := exec.Command(filepath.Join(GoRoot(), "bin", "go"), "build", "-trimpath", "-overlay", ovPath, "-o", tmpBin, ".")
	cmd.Dir = g
	cmd.Env = env
	out, err := cmd.CombinedOutput()
	if err != nil {
		os.Remove(tmpBin)
		return nil, fmt.Errorf("go build garble-sim: %v\n%s", err, out)
	}
	if logw != nil && len(out) > 0 {
		logw.Write(out)
	}
	rb, _ := json.MarshalIndent(rep, "", " ")
	if err := os.WriteFile(repPath, rb, 0o644); err != nil {
		return nil, err
	}
	if err := os.Rename(tmpBin, bin); err != nil {
		return nil, err
	}
	return &Result{Bin: bin, Key: key, Report: rep}, nil
}
