package main

import (
	"fmt"

	"example.test/p4/work"
)

func main() {
	fmt.Println(work.Marker, work.Trashed(7), work.Trashed(-3), work.Trashed(10))
}
