module example.test/p4

go 1.26
