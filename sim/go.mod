module verif.local/sim

go 1.26.2

require golang.org/x/tools v0.48.0

require (
	golang.org/x/mod v0.38.0 // indirect
	golang.org/x/sync v0.22.0 // indirect
)
