package main

import (
	"fmt"
	"os"
	"reflect"

	"example.test/p1/conf"
	"example.test/p1/leaf"
	"example.test/p1/mid1"
	"example.test/p1/mid2"
	"example.test/p1/top"
)

type local struct {
	Field1 string
	Field2 leaf.Plain
}

var version = "development-build-without-version"

var secretLiteral = "a literal long enough to be obfuscated"

func main() {
	for _, line := range top.Report("alpha") {
		fmt.Println(line)
	}
	fmt.Println(mid1.Show(leaf.New("x", 1)))
	t := reflect.TypeOf(local{})
	fmt.Println(t.Name(), t.NumField(), t.Field(0).Name, t.Field(1).Type.Name())
	p := leaf.Plain{Alpha: "abc", Beta: 4}
	fmt.Println(p.Sum(), version, flavour, secretLiteral, mid1.Scramble(12), mid2.Limit(), conf.Limit)
	if len(os.Args) > 1 {
		fmt.Println("args:", os.Args[1:])
	}
}
