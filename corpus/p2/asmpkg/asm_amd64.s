#include "go_asm.h"
#include "textflag.h"

TEXT ·addArgs(SB), NOSPLIT, $0-16
	MOVQ a+0(FP), R11
	MOVQ Args_first(R11), AX
	MOVQ Args_fir(R11), BX
	ADDQ BX, AX
	MOVQ Args_first2(R11), BX
	ADDQ BX, AX
	MOVQ AX, ret+8(FP)
	RET

TEXT ·argsSize(SB), NOSPLIT, $0-8
	MOVQ $Args__size, AX
	MOVQ AX, ret+0(FP)
	RET

TEXT ·add32(SB), NOSPLIT, $0-12
	MOVL x+0(FP), AX
	MOVL y+4(FP), BX
	ADDL BX, AX
	MOVL AX, ret+8(FP)
	RET

TEXT ·bump(SB), NOSPLIT, $0-0
	ADDQ $5, ·counter+0(SB)
	ADDQ $7, ·counter+8(SB)
	RET
