// Package lib declares the types reflected on by its dependant.
package lib

import "example.test/p3/util"

type Direct struct{ DirectA, DirectB int }
type ViaOne struct{ OneA string }
type ViaTwo struct{ TwoA, TwoB string }
type ViaThree struct{ ThreeA int }
type ViaIface struct{ IfaceA bool }
type ViaPtr struct{ PtrA *Inner }
type Inner struct{ InnerA, InnerB int }
type ViaSlice struct{ SliceA []Elem }
type Elem struct{ ElemA string }
type ViaVariadic struct{ VarA int }
type ViaVariadic2 struct{ VarB int }
type ViaGeneric struct{ GenA int }
type ViaJSON struct {
	JSONName  string
	JSONCount int `json:"count"`
	JSONInner *Inner2
}
type Inner2 struct{ Deep string }
type ViaLookup struct{ Wanted, Other string }
type ViaRet struct{ RetName, RetKind string }
type Box[T any] struct{ Boxed T }
type Payload struct{ PayloadA int }
type Embedded struct {
	Base
	Own int
}
type Base struct{ BaseField string }
type Stored struct{ StoredA, StoredB int }
type AfterStore struct{ AfterA string }
type NotReflected struct{ SecretField int }

// NewRet returns a pointer which the caller hands straight to a reflecting API.
func NewRet() *ViaRet { return &ViaRet{RetName: "hello", RetKind: "ret"} }

// InLib reflects, inside the declaring package, on a type declared here.
func InLib() string { return util.Two(localOnly{LocalA: 1}) }

type localOnly struct{ LocalA int }

func (n NotReflected) Sum() int { return n.SecretField + 1 }
