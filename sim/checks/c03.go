package checks

import (
	"crypto/sha256"
	"encoding/hex"
	"encoding/json"
	"fmt"
	"math/rand"
	"os"
	"path/filepath"
	"sort"
	"strings"

	"verif.local/sim/engine"
	"verif.local/sim/world"
)

// C03 — builds are reproducible bit for bit.
//
// The same (program, configuration) is built under environment variants that
// must not matter: runtime seed (Go map iteration order, the process-global
// math/rand stream, temp-file names — all decided by the runtime seam), -p and
// schedule, cache state (user-cold, or mixed: a seeded subset of the entries of
// a first build deleted), location of the source tree and of TMPDIR. Every
// variant's binary must equal the canonical one. The garbled source handed to
// each compile step is hashed as the run proceeds, so a mismatch is localised
// to a package and file.

func init() { Registry["C03"] = func() Check { return &c03{} } }

type c03 struct{}

func (c03) ID() string    { return "C03" }
func (c03) Level() string { return "exploration" }
func (c03) Rule() string {
	return "case = (program, configuration, variant) with variant = (runtime seed deciding map order / global math/rand / temp names, -p in {1,2,4,16}, schedule strategy+seed, cache state in {user-cold, mixed, fully cold}, source dir location, TMPDIR location incl. inside the source tree and with spaces). Oracle: sha256 of the binary equals that of the canonical variant (rtseed 1, alone, ungated). Non-trivial = the variant differs from the canonical one in at least the runtime seed or the schedule or the cache state or a path; distinct = distinct (program, configuration, variant) tuples."
}
func (c03) Assumptions() []string {
	return []string{
		"clock: garble reads the clock only for -debug timing lines and go-internal's cache for entry timestamps; the instrumenter lists every time.Now/Since reference and the check fails (exit 2) if an unlisted one appears",
		"cmd/go, compile, asm and link are taken to be deterministic; their $WORK directory name is left random on purpose",
		"fully cold variants (std re-obfuscated, linker rebuilt) are thorough-tier only",
	}
}

var knownClockSites = map[string]bool{
	"github.com/rogpeppe/go-internal/cache cache.go time.Now": true,
	"mvdan.cc/garble cache_shared.go time.Now":                true,
	"mvdan.cc/garble main.go time.Now":                        true,
	"mvdan.cc/garble main.go time.Since":                      true,
}

func (c03) Prepare(e *Env) error {
	// Clock assumption: every reference to the clock must be one of the known,
	// output-neutral ones (debug timing, cache entry timestamps).
	for _, cs := range e.ClockSites {
		f := strings.Fields(cs) // "<pkg> <file>:<line> <func>"
		if len(f) != 3 {
			continue
		}
		file, _, _ := strings.Cut(f[1], ":")
		if !knownClockSites[f[0]+" "+file+" "+f[2]] {
			return fmt.Errorf("C03 clock assumption: unlisted clock reference %s (review it and add it to knownClockSites if it cannot reach build output)", cs)
		}
	}
	n := 9
	if e.Tier == "thorough" {
		n = 36
	}
	st, err := RtSeamSelfTest(n)
	if err != nil {
		return err
	}
	e.SetExtra("runtime_seam_selftest", st)
	e.SetExtra("clock_references_reviewed", e.ClockSites)
	e.SetExtra("global_math_rand_references", e.GlobalRand)
	_, err = e.Template(c06TmplCfgs(e.Tier)...)
	return err
}

type c03Variant struct {
	RtSeed string    `json:"rtseed"`
	P      int       `json:"p"`
	Sched  SchedSpec `json:"sched"`
	Cache  string    `json:"cache"`            // user-cold | mixed | cold
	SrcDir string    `json:"srcdir,omitempty"` // directory name (may contain slashes/spaces)
	Tmp    string    `json:"tmp,omitempty"`    // default | in-src | spaces
	Mixed  int64     `json:"mixed_seed,omitempty"`
}

type c03Params struct {
	Prog string     `json:"prog"`
	Cfg  string     `json:"cfg"`
	Tier string     `json:"tier"`
	V    c03Variant `json:"v"`
}

func (c c03) Generate(e *Env) ([]*Case, error) {
	rng := rand.New(rand.NewSource(e.Seed))
	thorough := e.Tier == "thorough"
	var cases []*Case
	add := func(prog, cfg string, v c03Variant) {
		cases = append(cases, &Case{Property: "C03", Kind: "variant", Seed: e.Seed, Params: mustJSON(c03Params{Prog: prog, Cfg: cfg, Tier: e.Tier, V: v})})
	}
	progs := []string{"p1", "p3"}
	if _, err := os.Stat("/verif/corpus/p2"); err == nil {
		progs = append(progs, "p2")
	}
	cfgs := c06Pool(e.Tier)
	if thorough {
		cfgs = append(cfgs, "literals+X1", "default+tags")
	}
	k := 4
	if thorough {
		k = 12
	}
	srcDirs := []string{"", "deep/nested/dir/px", "with space/p x"}
	tmps := []string{"default", "in-src", "spaces"}
	ps := []int{1, 2, 4, 16}
	scheds := []string{"random", "sticky", "pct"}
	for pi, prog := range progs {
		for ci, cfg := range cfgs {
			if !thorough && pi > 0 && cfg != "default" && cfg != "ctrlflow" && cfg != "literals" {
				continue
			}
			if cfg == "gogarble" && prog == "p2" {
				continue
			}
			for i := 0; i < k; i++ {
				v := c03Variant{RtSeed: fmt.Sprint(2 + rng.Intn(1<<30)), P: ps[rng.Intn(4)], Cache: "user-cold"}
				if i == 0 {
					v.P = 1
				}
				if v.P > 1 {
					v.Sched = SchedSpec{Kind: scheds[rng.Intn(3)], Seed: rng.Int63()}
				} else {
					v.Sched = SchedSpec{Kind: "canonical"}
				}
				if rng.Intn(3) == 0 {
					v.SrcDir = srcDirs[1+rng.Intn(2)]
				}
				if rng.Intn(3) == 0 {
					v.Tmp = tmps[1+rng.Intn(2)]
				}
				if i == k-1 && (thorough || (pi == 0 && ci < 3)) {
					v.Cache = "mixed"
					v.Mixed = rng.Int63()
				}
				add(prog, cfg, v)
			}
		}
	}
	if thorough {
		// p4: a function obfuscated with trash blocks. Trash statements call functions
		// of packages the obfuscated package does not import, which garble can only
		// resolve when those packages are compiled in the same go invocation — so p4
		// builds from fully cold caches only (see DESIGN.md F11). One pair of fully
		// cold builds under two runtime seeds, outside the gate.
		cases = append(cases, &Case{Property: "C03", Kind: "coldpair", Seed: e.Seed,
			Params: mustJSON(c03Params{Prog: "p4", Cfg: "ctrlflow", Tier: e.Tier, V: c03Variant{RtSeed: "1", Cache: "coldpair", P: 16}})})
		for i := 0; i < 2; i++ {
			add("p1", []string{"default", "literals"}[i], c03Variant{RtSeed: fmt.Sprint(7 + i), P: 16, Cache: "cold", Sched: SchedSpec{Kind: "canonical"}})
		}
	}
	return cases, nil
}

// hashCompileInputs returns a hook that records the hash of every garbled file
// handed to a compile or asm step, keyed "pkg/file".
func hashCompileInputs(into map[string]string) func(*engine.Sim, engine.Step) {
	return func(s *engine.Sim, st engine.Step) {
		if st.Op != "exec" || !(strings.HasSuffix(st.Path, "/compile") || strings.HasSuffix(st.Path, "/asm")) {
			return
		}
		for i := len(s.Log) - 1; i >= 0 && i > len(s.Log)-40; i-- {
			le := s.Log[i]
			if le.Proc != st.Proc || le.Msg.Op != "exec" {
				continue
			}
			pkg := ""
			for _, p := range s.Procs {
				if p.ID == st.Proc {
					pkg = p.Pkg
				}
			}
			for _, a := range le.Msg.Args {
				if strings.HasSuffix(a, ".go") || strings.HasSuffix(a, ".s") {
					if b, err := os.ReadFile(a); err == nil {
						h := sha256.Sum256(b)
						into[pkg+"/"+filepath.Base(a)] = hex.EncodeToString(h[:8])
					}
				}
			}
			return
		}
	}
}

type c03Canon struct {
	Sha     string // gated, serial, rtseed 1
	Ungated string // ungated reference (real parallelism), rtseed 1
	Inputs map[string]string
}

// canonical builds (prog,cfg) once under the gate with rtseed 1 and records
// the garbled inputs of each compile step for localisation.
func (c c03) canonical(e *Env, prog, cfgName, tier string) (*c03Canon, error) {
	v, err := e.Memo("c03canon:"+prog+":"+cfgName, func() (any, error) {
		cfg, _ := c06Config(cfgName)
		tcfgs := c06TmplCfgs(tier)
		ref, err := e.Reference(RefSpec{Prog: prog, Cfg: cfg, TmplCfgs: tcfgs})
		if err != nil {
			return nil, err
		}
		if !ref.BuildOK {
			return nil, fmt.Errorf("c03: canonical build of %s under %s failed: %s", prog, cfgName, shortErr(ref.Stderr))
		}
		tmpl, err := e.Template(tcfgs...)
		if err != nil {
			return nil, err
		}
		w, err := world.New(e.Bin, "c03canon")
		if err != nil {
			return nil, err
		}
		defer w.Close()
		if err := w.Load(tmpl); err != nil {
			return nil, err
		}
		src, err := PrepareSource(w, prog, prog, nil)
		if err != nil {
			return nil, err
		}
		inputs := map[string]string{}
		out := filepath.Join(w.Out, "bin")
		cl := w.Client("A", src, cfg, "build", "-p=1", "-o", out, ".")
		if _, err := runSim(w, []*engine.Client{cl}, engine.Canonical{}, true, nil, hashCompileInputs(inputs)); err != nil {
			return nil, err
		}
		if cl.ExitCode != 0 {
			return nil, fmt.Errorf("c03: canonical gated build failed: %s", shortErr(cl.Stderr.String()))
		}
		got := world.HashFile(out)
		// The ungated reference and the gated canonical run are themselves two
		// variants (real parallelism vs. serial): they must agree.
		// Variants are compared with the gated run, whose compile inputs are known;
		// a disagreement with the ungated run is reported on its own.
		return &c03Canon{Sha: got, Ungated: ref.Sha, Inputs: inputs}, nil
	})
	if v == nil {
		return nil, err
	}
	return v.(*c03Canon), err
}

func (c c03) Run(e *Env, cs *Case) (*Outcome, error) {
	var p c03Params
	if err := json.Unmarshal(cs.Params, &p); err != nil {
		return nil, err
	}
	cfg, _ := c06Config(p.Cfg)
	tcfgs := c06TmplCfgs(p.Tier)
	o := &Outcome{Faults: map[string]int{}, Probes: map[string]int{}, Traces: map[string][]engine.Step{}}
	o.Fingerprint = string(cs.Params)
	o.NonTrivial = true
	if p.V.Cache == "coldpair" {
		// Two fully cold builds of the same inputs under different runtime seeds.
		var shas []string
		for _, seed := range []string{"1", "2"} {
			w, err := world.New(e.Bin, "c03cold")
			if err != nil {
				return nil, err
			}
			w.RtSeed = seed
			src, err := PrepareSource(w, p.Prog, p.Prog, nil)
			if err != nil {
				w.Close()
				return nil, err
			}
			out := filepath.Join(w.Out, "bin")
			_, se, code := w.RunPlain(src, cfg, "build", "-o", out, ".")
			o.SimRuns++
			o.Probes["fully-cold-build"]++
			sha := world.HashFile(out)
			w.Close()
			if code != 0 {
				o.Violation = &Violation{Class: "build-failed", Key: "build-failed/" + p.Prog + "/" + p.Cfg + "/cold", Detail: shortErr(se)}
				return o, nil
			}
			shas = append(shas, sha)
		}
		o.Sample = map[string]any{"params": p, "shas": shas}
		if shas[0] != shas[1] {
			o.Violation = &Violation{Class: "binary-differs", Key: "binary-differs/" + p.Prog + "/" + p.Cfg + "/cold-pair",
				Detail: fmt.Sprintf("%s under %s, two fully cold builds that differ only in the runtime seed (map iteration order): %.16s vs %.16s", p.Prog, p.Cfg, shas[0], shas[1])}
		}
		return o, nil
	}
	canon, cerr := c.canonical(e, p.Prog, p.Cfg, p.Tier)
	if cerr != nil {
		return nil, cerr
	}
	var extra []*Violation
	if canon.Ungated != canon.Sha {
		extra = append(extra, &Violation{Class: "binary-differs", Key: "binary-differs/" + p.Prog + "/" + p.Cfg + "/gated-vs-ungated",
			Detail: fmt.Sprintf("%s under %s: the serial gated build (%.16s) and the ungated parallel build (%.16s) of identical inputs and runtime seed differ (the number of runtime.rand draws differs between the two, hence map iteration orders)", p.Prog, p.Cfg, canon.Sha, canon.Ungated)})
	}
	defer func() {
		// attach the canonical-pair violation to whatever this case found
		if o != nil && len(extra) > 0 {
			if o.Violation == nil {
				o.Violation, extra = extra[0], extra[1:]
			}
			o.More = append(o.More, extra...)
		}
	}()
	w, err := world.New(e.Bin, "c03")
	if err != nil {
		return nil, err
	}
	defer w.Close()
	w.RtSeed = p.V.RtSeed
	if p.V.Cache != "cold" {
		tmpl, err := e.Template(tcfgs...)
		if err != nil {
			return nil, err
		}
		if err := w.Load(tmpl); err != nil {
			return nil, err
		}
	}
	dirName := p.V.SrcDir
	if dirName == "" {
		dirName = p.Prog
	}
	os.MkdirAll(filepath.Dir(filepath.Join(w.Src, dirName)), 0o755)
	src, err := PrepareSource(w, p.Prog, dirName, nil)
	if err != nil {
		return nil, err
	}
	switch p.V.Tmp {
	case "in-src":
		w.Tmp = filepath.Join(src, "tmpdir")
	case "spaces":
		w.Tmp = filepath.Join(w.Root, "tmp dir", "x y")
	}
	os.MkdirAll(w.Tmp, 0o755)
	out := filepath.Join(w.Out, "bin")
	inputs := map[string]string{}
	build := func(label string, pn int, sched SchedSpec) (*engine.Client, *engine.Sim, error) {
		cl := w.Client("A", src, cfg, "build", fmt.Sprintf("-p=%d", pn), "-o", out, ".")
		s, err := runSim(w, []*engine.Client{cl}, sched.Policy(), pn <= 1, cs.Traces[label], hashCompileInputs(inputs))
		if err != nil {
			return nil, nil, err
		}
		o.SimRuns++
		o.Steps += len(s.Steps)
		o.Choice += s.Stats.ChoicePoints
		o.Traces[label] = s.Steps
		return cl, s, nil
	}
	var cl *engine.Client
	var s *engine.Sim
	switch p.V.Cache {
	case "cold":
		// Fully cold: std is re-obfuscated and the linker rebuilt; run outside the gate.
		_, se, code := w.RunPlain(src, cfg, "build", "-o", out, ".")
		cl = &engine.Client{ExitCode: code}
		cl.Stderr.WriteString(se)
		s = &engine.Sim{}
		o.SimRuns++
		o.Probes["fully-cold-build"]++
	case "mixed":
		c0, _, err := build("first", 1, SchedSpec{Kind: "canonical"})
		if err != nil {
			return nil, err
		}
		if c0.ExitCode != 0 {
			return nil, fmt.Errorf("c03: first build of mixed variant failed: %s", shortErr(c0.Stderr.String()))
		}
		// Delete a seeded subset of what the first build added to either cache.
		r := rand.New(rand.NewSource(p.V.Mixed))
		var added []string
		for _, f := range world.ListFiles(w.GoCache) {
			if !w.TmplFiles[f] {
				added = append(added, filepath.Join(w.GoCache, f))
			}
		}
		tmplBuild := map[string]bool{}
		if t, err := e.Template(tcfgs...); err == nil {
			for _, f := range world.ListFiles(filepath.Join(t.Dir, "garblecache", "build")) {
				tmplBuild[f] = true
			}
		}
		for _, f := range world.ListFiles(filepath.Join(w.GarbleCache, "build")) {
			if !tmplBuild[f] {
				added = append(added, filepath.Join(w.GarbleCache, "build", f))
			}
		}
		sort.Strings(added)
		n := 0
		for _, f := range added {
			if r.Intn(2) == 0 {
				os.Remove(f)
				n++
			}
		}
		o.Probes["mixed-cache-entries-deleted"] += n
		os.Remove(out)
		inputs = map[string]string{}
		cl, s, err = build("build", p.V.P, p.V.Sched)
		if err != nil {
			return nil, err
		}
	default:
		cl, s, err = build("build", p.V.P, p.V.Sched)
		if err != nil {
			return nil, err
		}
	}
	o.SchedHash = schedHash(s.Steps)
	o.Sample = map[string]any{"params": p, "steps": len(s.Steps), "choice_points": s.Stats.ChoicePoints}
	key := p.Cfg
	if cl.ExitCode != 0 {
		o.Violation = &Violation{Class: "build-failed", Key: "build-failed/" + key, Detail: fmt.Sprintf("variant %+v failed: %s", p.V, shortErr(cl.Stderr.String()))}
		return o, nil
	}
	got := world.HashFile(out)
	if got == canon.Sha {
		// Same binary. The obfuscated sources handed to the compiler (what
		// -debugdir shows) must be the same too: a difference there that the
		// compiler happens to erase is still non-reproducible output.
		if p.V.Cache != "cold" {
			for _, k := range sortedKeys(canon.Inputs) {
				if h, ok := inputs[k]; ok && h != canon.Inputs[k] {
					o.Violation = &Violation{Class: "garbled-source-differs", Key: "garbled-source-differs/" + key + "/" + k,
						Detail: fmt.Sprintf("%s under %s: variant %+v produces the same binary but a different obfuscated source for %s (hash %s vs %s in the canonical build)", p.Prog, p.Cfg, p.V, k, h, canon.Inputs[k])}
					break
				}
			}
		}
		return o, nil
	}
	// Localise: first compile input that differs from the canonical run.
	var diffs []string
	for _, k := range sortedKeys(canon.Inputs) {
		if h, ok := inputs[k]; ok && h != canon.Inputs[k] {
			diffs = append(diffs, k)
		}
	}
	where := "no garbled compile input differs (difference arises at link time or in a cached package)"
	loc := "link-or-cached"
	if len(diffs) > 0 {
		where = "garbled source differs first in " + diffs[0] + fmt.Sprintf(" (%d files differ)", len(diffs))
		loc = diffs[0]
	}
	cause := "rtseed"
	if p.V.Cache == "mixed" {
		cause = "rtseed+mixed-cache"
	}
	o.Violation = &Violation{Class: "binary-differs", Key: "binary-differs/" + key + "/" + loc,
		Detail: fmt.Sprintf("%s under %s: variant %+v gives %s, canonical build gives %s; %s (varied: %s, -p, schedule, paths)", p.Prog, p.Cfg, p.V, got[:16], canon.Sha[:16], where, cause)}
	return o, nil
}

func (c c03) Shrink(cs *Case) []*Case {
	var p c03Params
	if json.Unmarshal(cs.Params, &p) != nil {
		return nil
	}
	var out []*Case
	mk := func(q c03Params) {
		nc := *cs
		nc.Params = mustJSON(q)
		nc.Traces = nil
		out = append(out, &nc)
	}
	if p.V.P > 1 {
		q := p
		q.V.P = 1
		q.V.Sched = SchedSpec{Kind: "canonical"}
		mk(q)
	}
	if p.V.SrcDir != "" || (p.V.Tmp != "" && p.V.Tmp != "default") {
		q := p
		q.V.SrcDir, q.V.Tmp = "", ""
		mk(q)
	}
	if p.V.Cache == "mixed" {
		q := p
		q.V.Cache = "user-cold"
		mk(q)
	}
	return out
}
