package checks

import (
	"fmt"
	"math/rand"
	"os"
	"path/filepath"
	"strings"
	"time"

	"verif.local/sim/engine"
	"verif.local/sim/world"
)

// SchedSpec names a scheduling strategy; with Seed it is reproducible.
type SchedSpec struct {
	Kind string `json:"kind"` // canonical | random | sticky | pct
	Seed int64  `json:"seed,omitempty"`
}

func (s SchedSpec) Policy() engine.Policy {
	r := rand.New(rand.NewSource(s.Seed))
	switch s.Kind {
	case "random":
		return engine.Random{R: r}
	case "sticky":
		return &engine.Sticky{R: r, P: 0.8}
	case "pct":
		return engine.NewPCT(r, 3, 400)
	}
	return engine.Canonical{}
}

// runSim runs clients in world w under policy. When trace is non-nil it is
// enforced (replay) instead of the policy.
func runSim(w *world.World, clients []*engine.Client, pol engine.Policy, serial bool, trace []engine.Step, hook func(*engine.Sim, engine.Step)) (*engine.Sim, error) {
	return runSimH(w, clients, pol, serial, trace, simHooks{OnStep: hook})
}

type simHooks struct {
	OnStep        func(*engine.Sim, engine.Step)
	OnPark        func(*engine.Sim, *engine.Proc, *engine.Msg)
	BeforeRelease func(*engine.Sim, *engine.Proc, *engine.Msg)
}

func runSimH(w *world.World, clients []*engine.Client, pol engine.Policy, serial bool, trace []engine.Step, h simHooks) (*engine.Sim, error) {
	if trace != nil {
		pol = &engine.Replay{Steps: trace}
	}
	s := &engine.Sim{GarbleBin: w.Garble, Clients: clients, Policy: pol, Serial: serial, RunDir: w.Root, Timeout: 8 * time.Minute,
		OnStep: h.OnStep, OnPark: h.OnPark, BeforeRelease: h.BeforeRelease}
	if err := s.Run(); err != nil {
		return s, err
	}
	return s, nil
}

// damage applies a durable-state fault to one file.
func damage(path, mode string) error {
	fi, err := os.Stat(path)
	if err != nil {
		return fmt.Errorf("damage %s: %v", path, err)
	}
	size := fi.Size()
	switch mode {
	case "delete":
		return os.Remove(path)
	case "empty":
		return os.Truncate(path, 0)
	case "trunc1":
		if size < 1 {
			return nil
		}
		return os.Truncate(path, 1)
	case "trunchalf":
		return os.Truncate(path, size/2)
	case "truncm1":
		if size < 1 {
			return nil
		}
		return os.Truncate(path, size-1)
	}
	return fmt.Errorf("unknown damage mode %q", mode)
}

// ageTree shifts the mtime of every file below root days into the past.
func ageTree(root string, days int) int {
	n := 0
	old := time.Now().Add(-time.Duration(days) * 24 * time.Hour)
	filepath.Walk(root, func(p string, fi os.FileInfo, err error) error {
		if err == nil && fi.Mode().IsRegular() {
			os.Chtimes(p, old, old)
			n++
		}
		return nil
	})
	return n
}

func countTool(s *engine.Sim) (compile, asm, link int) {
	return s.Stats.CompileProcs, s.Stats.AsmProcs, s.Stats.LinkProcs
}

func shortErr(s string) string {
	s = strings.TrimSpace(s)
	if len(s) > 600 {
		s = s[:600] + "..."
	}
	return s
}

// leftovers lists garble-created entries directly under TMPDIR.
func leftovers(tmp string) []string {
	ents, _ := os.ReadDir(tmp)
	var out []string
	for _, e := range ents {
		n := e.Name()
		if strings.HasPrefix(n, "garble-shared") || strings.HasPrefix(n, "importcfg") || strings.HasPrefix(n, "linker-src") || strings.HasPrefix(n, "garble-") {
			out = append(out, n)
		}
	}
	return out
}
