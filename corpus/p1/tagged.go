//go:build verif_t

package main

const flavour = "tagged"
