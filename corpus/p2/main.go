package main

import (
	"fmt"

	"example.test/p2/top"
)

func main() {
	for _, l := range top.Lines() {
		fmt.Println(l)
	}
}
