package checks

import (
	"fmt"
	"os"
	"time"

	"verif.local/sim/simbuild"
	"verif.local/sim/world"
)

// Prewarm builds garble-sim from /repo's current tree and the std templates
// the checks of the given tier start from.
func Prewarm(tier string) error {
	t0 := time.Now()
	res, err := simbuild.Build("/repo", os.Stderr)
	if err != nil {
		return err
	}
	fmt.Fprintf(os.Stderr, "garble-sim %s ready (%.0fs)\n", res.Key, time.Since(t0).Seconds())
	sets := [][]world.Config{{cfgDefault}, c06TmplCfgs(tier), {cfgDebugDir}}
	for _, cfgs := range sets {
		t1 := time.Now()
		if _, err := world.EnsureTemplate(res.Bin, res.Key, cfgs); err != nil {
			return err
		}
		fmt.Fprintf(os.Stderr, "template of %d configuration(s) ready (%.0fs)\n", len(cfgs), time.Since(t1).Seconds())
	}
	return nil
}
