package main

import (
	"fmt"
	"reflect"

	"example.test/p3/conv"
	"example.test/p3/lib"
	"example.test/p3/util"
)

type mainLocal struct {
	LocalX int
	LocalY lib.Inner
}

// h1 -> h2 -> reflect: helpers declared in main, discovered over several passes.
func h2(v any) string { return reflect.TypeOf(v).Name() + "/" + reflect.TypeOf(v).Field(0).Name }
func h1(v any) string { return h2(v) }

func show(name, got string) { fmt.Printf("%s: %s\n", name, got) }

// wire is reflected on in one function and converted to another named type in a
// different one; the conversion target must keep its name as well, whichever
// function the analysis happens to visit first.
type wire struct{ WireA, WireB int }
type converted wire

func reflectsWire() string    { return reflect.TypeOf(wire{}).Name() }
func convertsWire(w wire) any { return converted(w) }
func nameOf(v any) string     { return fmt.Sprintf("%T", v) }

func main() {
	show("direct", fmt.Sprint(reflect.TypeOf(lib.Direct{}).Name(), reflect.TypeOf(lib.Direct{}).Field(1).Name))
	show("one-helper", util.One(lib.ViaOne{}))
	show("two-helpers", util.Two(lib.ViaTwo{}))
	show("three-helpers", util.Three(lib.ViaThree{}))
	var n util.Namer = util.ReflectNamer{}
	show("interface", n.Describe(lib.ViaIface{}))
	show("pointer", util.Two(&lib.ViaPtr{PtrA: &lib.Inner{}}))
	show("slice", util.One([]lib.ViaSlice{{}}))
	show("variadic", util.Var(lib.ViaVariadic{}, &lib.ViaVariadic2{}))
	show("generic-func", util.Generic(lib.ViaGeneric{}))
	show("generic-type", util.One(lib.Box[lib.Payload]{}))
	show("json", util.JSON(lib.ViaJSON{JSONName: "n", JSONCount: 2, JSONInner: &lib.Inner2{Deep: "d"}}))
	show("lookup", util.Lookup(lib.ViaLookup{Wanted: "found", Other: "o"}, "Wanted"))
	show("embedded", util.Two(lib.Embedded{}))
	show("declared-in-dependant", util.Three(mainLocal{}))
	show("inside-lib", lib.InLib())
	show("not-reflected", fmt.Sprint(lib.NotReflected{SecretField: 41}.Sum()))

	// A store to an addressed variable of an already reflected type, followed in
	// the same block by a call that needs further analysis passes.
	var x lib.Stored
	p := &x
	show("store-first", reflect.TypeOf(*p).Name())
	*p = lib.Stored{StoredA: 1}
	show("after-store", h1(lib.AfterStore{AfterA: "z"}))

	show("reflected-then-converted", reflectsWire()+"/"+nameOf(convertsWire(wire{WireA: 1})))

	show("converted-in-other-package", conv.Reflects()+"/"+conv.NameOf())

	// A value returned by a call and passed straight to a reflecting API.
	show("call-result", util.JSON(lib.NewRet()))
}
