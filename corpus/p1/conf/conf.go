// Package conf has no call expressions and no literal long enough for -literals:
// blank lines or free-standing comments change nothing in its obfuscated build.
package conf

// Mode selects a behaviour.
type Mode int

const (
	Limit = 3
	Quiet Mode = 1
)

var Default = Quiet
