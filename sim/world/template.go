package world

import (
	"crypto/sha256"
	"encoding/hex"
	"encoding/json"
	"fmt"
	"os"
	"os/exec"
	"path/filepath"
	"strings"
	"syscall"
	"time"

	"verif.local/sim/simbuild"
)

// StdSet is the set of std packages corpus programs may import; the dummy
// main used to build std templates imports exactly these.
var StdSet = []string{
	"bytes", "encoding/json", "errors", "fmt", "io", "math", "os", "reflect", "runtime",
	"sort", "strconv", "strings", "sync", "time", "unsafe",
}

func dummyMain() string {
	var b strings.Builder
	b.WriteString("package main\n\nimport (\n")
	for _, p := range StdSet {
		fmt.Fprintf(&b, "\t_ %q\n", p)
	}
	b.WriteString(")\n\nfunc main() {}\n")
	return b.String()
}

func lockFile(path string) (func(), error) {
	f, err := os.OpenFile(path, os.O_CREATE|os.O_RDWR, 0o644)
	if err != nil {
		return nil, err
	}
	if err := syscall.Flock(int(f.Fd()), syscall.LOCK_EX); err != nil {
		f.Close()
		return nil, err
	}
	return func() { syscall.Flock(int(f.Fd()), syscall.LOCK_UN); f.Close() }, nil
}

// ensureBase builds (once per toolchain) a GOCACHE holding the plain std
// packages and cmd/link's dependencies, so templates start warm.
// EnsureBase is exported for plain reference builds.
func EnsureBase() (string, error) { return ensureBase() }

func ensureBase() (string, error) {
	base := filepath.Join(simbuild.StateDir(), "base")
	done := filepath.Join(base, "done")
	if _, err := os.Stat(done); err == nil {
		return filepath.Join(base, "gocache"), nil
	}
	os.MkdirAll(base, 0o755)
	unlock, err := lockFile(filepath.Join(base, ".lock"))
	if err != nil {
		return "", err
	}
	defer unlock()
	if _, err := os.Stat(done); err == nil {
		return filepath.Join(base, "gocache"), nil
	}
	w, err := New("", "base")
	if err != nil {
		return "", err
	}
	defer w.Close()
	dir := filepath.Join(w.Src, "dummy")
	os.MkdirAll(dir, 0o755)
	os.WriteFile(filepath.Join(dir, "go.mod"), []byte("module example.test/dummy\n\ngo 1.26\n"), 0o644)
	os.WriteFile(filepath.Join(dir, "main.go"), []byte(dummyMain()), 0o644)
	if _, se, code := w.GoPlain(dir, "build", "-trimpath", "-o", filepath.Join(w.Out, "dummy"), "."); code != 0 {
		return "", fmt.Errorf("base: plain build of dummy failed: %s", se)
	}
	if _, se, code := w.GoPlain(dir, "build", "-o", filepath.Join(w.Out, "link"), "cmd/link"); code != 0 {
		return "", fmt.Errorf("base: build of cmd/link failed: %s", se)
	}
	gc := filepath.Join(base, "gocache")
	os.RemoveAll(gc)
	if err := CopyTree(w.GoCache, gc); err != nil {
		return "", err
	}
	return gc, os.WriteFile(done, []byte(time.Now().Format(time.RFC3339)), 0o644)
}

// Template is a pair of caches holding std (plain and garbled under each of
// the configurations it was built for) and the patched linker, but no user
// package.
type Template struct {
	Dir   string
	Files map[string]bool // GOCACHE file set
}

func tmplKey(cfgs []Config) string {
	h := sha256.New()
	fmt.Fprintln(h, "tmpl v2", StdSet)
	for _, c := range cfgs {
		b, _ := json.Marshal(c)
		h.Write(b)
		h.Write([]byte{'\n'})
	}
	return hex.EncodeToString(h.Sum(nil))[:16]
}

// EnsureTemplate returns the template for (garble-sim binKey, cfgs), building
// it if needed. Safe to call from several processes.
func EnsureTemplate(garble, binKey string, cfgs []Config) (*Template, error) {
	dir := filepath.Join(simbuild.StateDir(), "tmpl", binKey, tmplKey(cfgs))
	done := filepath.Join(dir, "done")
	load := func() (*Template, error) {
		t := &Template{Dir: dir, Files: map[string]bool{}}
		b, err := os.ReadFile(filepath.Join(dir, "files.txt"))
		if err != nil {
			return nil, err
		}
		for _, l := range strings.Split(string(b), "\n") {
			if l != "" {
				t.Files[l] = true
			}
		}
		return t, nil
	}
	if _, err := os.Stat(done); err == nil {
		return load()
	}
	os.MkdirAll(dir, 0o755)
	unlock, err := lockFile(filepath.Join(dir, ".lock"))
	if err != nil {
		return nil, err
	}
	defer unlock()
	if _, err := os.Stat(done); err == nil {
		return load()
	}
	baseGC, err := ensureBase()
	if err != nil {
		return nil, err
	}
	w, err := New(garble, "tmpl")
	if err != nil {
		return nil, err
	}
	defer w.Close()
	if err := CopyTree(baseGC, w.GoCache); err != nil {
		return nil, err
	}
	src := filepath.Join(w.Src, "dummy")
	os.MkdirAll(src, 0o755)
	os.WriteFile(filepath.Join(src, "go.mod"), []byte("module example.test/dummy\n\ngo 1.26\n"), 0o644)
	os.WriteFile(filepath.Join(src, "main.go"), []byte(dummyMain()), 0o644)
	for _, cfg := range cfgs {
		_, se, code := w.RunPlain(src, cfg, "build", "-o", filepath.Join(w.Out, "dummy"), ".")
		if code != 0 {
			return nil, fmt.Errorf("template build under %s failed (exit %d): %s", cfg.Name, code, se)
		}
	}
	for _, sub := range []string{"gocache", "garblecache"} {
		os.RemoveAll(filepath.Join(dir, sub))
	}
	if err := CopyTree(w.GoCache, filepath.Join(dir, "gocache")); err != nil {
		return nil, err
	}
	if err := CopyTree(w.GarbleCache, filepath.Join(dir, "garblecache")); err != nil {
		return nil, err
	}
	files := ListFiles(filepath.Join(dir, "gocache"))
	if err := os.WriteFile(filepath.Join(dir, "files.txt"), []byte(strings.Join(files, "\n")+"\n"), 0o644); err != nil {
		return nil, err
	}
	if err := os.WriteFile(done, []byte(time.Now().Format(time.RFC3339)), 0o644); err != nil {
		return nil, err
	}
	return load()
}

// Load copies the template's caches into the world (which must be fresh).
func (w *World) Load(t *Template) error {
	if err := cpA(filepath.Join(t.Dir, "gocache"), w.GoCache); err != nil {
		return err
	}
	if err := cpA(filepath.Join(t.Dir, "garblecache"), w.GarbleCache); err != nil {
		return err
	}
	w.TmplFiles = t.Files
	return nil
}

// CpA is cp -a of directory contents.
func CpA(src, dst string) error { return cpA(src, dst) }

// cpA copies directory contents with cp -a (fast path for big caches).
func cpA(src, dst string) error {
	os.MkdirAll(dst, 0o755)
	out, err := exec.Command("cp", "-a", src+"/.", dst+"/").CombinedOutput()
	if err != nil {
		return fmt.Errorf("cp -a %s %s: %v: %s", src, dst, err, out)
	}
	return nil
}

// PruneTemplates removes templates and binaries of garble-sim keys other than keep
// when the state directory grows beyond maxBytes.
func PruneTemplates(keep string, maxBytes int64) {
	root := filepath.Join(simbuild.StateDir(), "tmpl")
	ents, err := os.ReadDir(root)
	if err != nil {
		return
	}
	var total int64
	sizes := map[string]int64{}
	for _, e := range ents {
		out, err := exec.Command("du", "-sb", filepath.Join(root, e.Name())).Output()
		if err != nil {
			continue
		}
		var n int64
		fmt.Sscan(string(out), &n)
		sizes[e.Name()] = n
		total += n
	}
	if total <= maxBytes {
		return
	}
	for _, e := range ents {
		if e.Name() == keep {
			continue
		}
		os.RemoveAll(filepath.Join(root, e.Name()))
		os.RemoveAll(filepath.Join(simbuild.StateDir(), "bin", e.Name()))
		os.RemoveAll(filepath.Join(simbuild.StateDir(), "ref", e.Name()))
		total -= sizes[e.Name()]
		if total <= maxBytes {
			return
		}
	}
}
