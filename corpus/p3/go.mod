module example.test/p3

go 1.26
