// Package rt produces the simulator flavour of runtime/rand.go: when the raw
// environment block of the process contains VERIF_RTSEED, every consumer of
// runtime.rand() (map seeds and iteration starts, top-level math/rand,
// os.MkdirTemp/CreateTemp names) draws from one process-wide counter stream
// derived from that seed (mixed with TOOLEXEC_IMPORTPATH, so each toolexec
// child of one build has its own but reproducible stream). Without the
// variable the code paths are the stock ones.
//
// The patch is textual and version-checked: if any anchor is missing the
// caller must treat it as an infrastructure error (exit 2).
package rt

import (
	"fmt"
	"os"
	"path/filepath"
	"strings"
)

const SupportedGoVersion = "go1.26.2"

const helpers = `
// ---- verif simulation seam (added by /verif/sim/rt) ----

var verifSeeded bool
var verifSeed uint64
var verifCtr atomic.Uint64

// verifEnvSeed scans the raw environment block (goenvs has not run yet).
func verifEnvSeed() (uint64, bool) {
	if argv == nil {
		return 0, false
	}
	const k1 = "VERIF_RTSEED="
	const k2 = "TOOLEXEC_IMPORTPATH="
	h := uint64(14695981039346656037)
	found := false
	for pass := 0; pass < 2; pass++ {
		key := k1
		if pass == 1 {
			key = k2
		}
		for i := argc + 1; ; i++ {
			p := argv_index(argv, i)
			if p == nil {
				break
			}
			s := gostringnocopy(p)
			if len(s) >= len(key) && s[:len(key)] == key {
				if pass == 0 {
					found = true
				}
				for j := len(key); j < len(s); j++ {
					h ^= uint64(s[j])
					h *= 1099511628211
				}
				h ^= 0xff
				h *= 1099511628211
				break
			}
		}
	}
	return h, found
}

//go:nosplit
func verifMix(x uint64) uint64 {
	x += 0x9e3779b97f4a7c15
	x = (x ^ (x >> 30)) * 0xbf58476d1ce4e5b9
	x = (x ^ (x >> 27)) * 0x94d049bb133111eb
	return x ^ (x >> 31)
}
`

type edit struct{ old, new string }

var edits = []edit{
	{
		old: "\t\"internal/goarch\"\n",
		new: "\t\"internal/goarch\"\n\t\"internal/runtime/atomic\"\n",
	},
	{
		// Seed the global generator (hash keys, per-M states) from the env seed.
		old: "\tglobalRand.state.Init(*seed)\n\tclear(seed[:])\n",
		new: "\tif vs, ok := verifEnvSeed(); ok {\n" +
			"\t\tverifSeeded = true\n\t\tverifSeed = vs\n" +
			"\t\tfor i := range seed {\n\t\t\tseed[i] = byte(verifMix(vs+uint64(i)) >> 7)\n\t\t}\n\t}\n" +
			"\tglobalRand.state.Init(*seed)\n\tclear(seed[:])\n",
	},
	{
		old: "\tmp := getg().m\n\tc := &mp.chacha8\n\tfor {\n",
		new: "\tif verifSeeded {\n\t\treturn verifMix(verifSeed + verifCtr.Add(1)*0x9e3779b97f4a7c15)\n\t}\n" +
			"\tmp := getg().m\n\tc := &mp.chacha8\n\tfor {\n",
	},
	{
		// Creating an M must not consume from the user-visible stream.
		old: "\tmp.cheaprand = rand()\n",
		new: "\tif verifSeeded {\n\t\tmp.cheaprand = bootstrapRand()\n\t} else {\n\t\tmp.cheaprand = rand()\n\t}\n",
	},
}

// Patched returns the modified source of $GOROOT/src/runtime/rand.go.
func Patched(goroot string) ([]byte, error) {
	ver, err := os.ReadFile(filepath.Join(goroot, "VERSION"))
	if err != nil {
		return nil, err
	}
	if !strings.HasPrefix(string(ver), SupportedGoVersion+"\n") && strings.TrimSpace(string(ver)) != SupportedGoVersion {
		return nil, fmt.Errorf("runtime seam written for %s, GOROOT has %q", SupportedGoVersion, strings.SplitN(string(ver), "\n", 2)[0])
	}
	src, err := os.ReadFile(filepath.Join(goroot, "src", "runtime", "rand.go"))
	if err != nil {
		return nil, err
	}
	s := string(src)
	for _, e := range edits {
		if strings.Count(s, e.old) != 1 {
			return nil, fmt.Errorf("runtime seam: anchor %q found %d times in rand.go", e.old, strings.Count(s, e.old))
		}
		s = strings.Replace(s, e.old, e.new, 1)
	}
	return []byte(s + helpers), nil
}
