// Package lib2 declares the same identifiers as lib and produces a normalised stack trace through several call shapes.
package lib2

import (
	"runtime"
	"strings"
)

type Tracer struct {
	Depth int
}

// Walk is a method; it calls a closure, which calls a generic function,
// whose deferred function captures the stack.
func (t *Tracer) Walk() string {
	var out string
	step := func(n int) {
		out = viaGeneric(n, "payload")
	}
	step(t.Depth)
	return out
}

func viaGeneric[T any](n int, v T) (res string) {
	defer func() {
		res = capture()
	}()
	if n > 0 {
		return viaGeneric(n-1, v)
	}
	return ""
}

// capture returns the current goroutine's stack with arguments, pointers and
// offsets removed, so that it is comparable across builds.
func capture() string {
	buf := make([]byte, 1<<16)
	buf = buf[:runtime.Stack(buf, false)]
	var sb strings.Builder
	for _, line := range strings.Split(strings.TrimRight(string(buf), "\n"), "\n") {
		if strings.HasPrefix(line, "\t") {
			if i := strings.Index(line, " +0x"); i >= 0 {
				line = line[:i]
			}
		} else if strings.HasSuffix(line, ")") {
			if i := strings.LastIndex(line, "("); i >= 0 {
				line = line[:i] + "(...)"
			}
		}
		sb.WriteString(line)
		sb.WriteByte('\n')
	}
	return sb.String()
}
