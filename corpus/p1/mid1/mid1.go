package mid1

import (
	"example.test/p1/leaf"
)

// Mid1 is declared here and reflected through leaf.Describe via Show.
type Mid1 struct {
	L   leaf.Leaf
	Tag string
}

// Show forwards to the reflecting helper one level down.
func Show(v any) string {
	return "mid1:" + leaf.Describe(v)
}

// MakeDeep returns a type declared two levels below the package that reflects
// on it (top), which neither imports leaf nor is imported by leaf's users in main.
func MakeDeep() leaf.Deep { return leaf.Deep{DeepName: "d", DeepRank: 3} }

func Make(tag string) Mid1 {
	return Mid1{L: leaf.New(tag, len(tag)), Tag: tag}
}

// Scramble is rewritten by control-flow obfuscation when that is enabled.
// (No loops: loops make the SSA-to-AST conversion panic for some random draws,
// which is a separate matter from the properties this corpus serves.)
//
//garble:controlflow flatten_passes=1
func Scramble(n int) int {
	// Variables of several types, so that the rewritten function declares
	// several groups of variables.
	acc := 1
	label := "s"
	even := n%2 == 0
	ratio := 1.5
	if n%3 == 0 {
		acc += n * 7
		label += "a"
	} else if n%3 == 1 {
		acc ^= n << 2
		ratio *= 2
	} else {
		acc -= n
		even = !even
	}
	if n > 10 {
		acc *= 3
		label += "big"
	}
	if even {
		acc += len(label)
	}
	if ratio > 2 {
		acc++
	}
	return acc + hardened(n)
}

// hardened exercises dispatcher hardening (key material is drawn at random).
//
//garble:controlflow flatten_passes=1 flatten_hardening=xor,delegate_table
func hardened(n int) int {
	if n%2 == 0 {
		return n/2 + 11
	}
	if n > 100 {
		return n - 100
	}
	return 3*n + 1
}
