module verif.local/verifrt

go 1.26.2

require github.com/rogpeppe/go-internal v1.15.0
