// Package gen has generic code and a struct converted across packages.
package gen

import (
	"strings"
	_ "unsafe" // for go:linkname
)

type Pair[K comparable, V any] struct {
	Key K
	Val V
}

func MapKeys[K comparable, V any](ps []Pair[K, V]) []K {
	out := make([]K, 0, len(ps))
	for _, p := range ps {
		out = append(out, p.Key)
	}
	return out
}

// Point has the same shape as top.Coord; values are converted between them.
type Point struct {
	X, Y int
	Tag  string
}

func (p Point) String() string { return p.Tag + ":" + strings.Repeat("*", p.X+p.Y) }

//go:linkname hidden example.test/p2/gen.hiddenImpl
func hidden(n int) int

func hiddenImpl(n int) int { return n*n + 1 }

func Hidden(n int) int { return hidden(n) }
