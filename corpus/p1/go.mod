module example.test/p1

go 1.26
