package checks

import (
	"encoding/json"
	"fmt"
	"os"
	"os/exec"
	"path/filepath"
	"strings"

	"verif.local/sim/rt"
	"verif.local/sim/simbuild"
)

const rtProbeSrc = `package main

import (
	"fmt"
	"maps"
	"math/rand"
	"os"
	"os/exec"
	"slices"
)

func main() {
	m := map[string]int{}
	for i := 0; i < 64; i++ {
		m[fmt.Sprint("k", i)] = i
	}
	s := ""
	for k := range m {
		s += k
		if len(s) > 40 {
			break
		}
	}
	d, _ := os.MkdirTemp("", "probe")
	os.Remove(d)
	exec.Command("true").Run()
	ks := slices.Collect(maps.Keys(map[int]bool{1: true, 2: true, 3: true, 4: true, 5: true, 6: true, 7: true, 8: true, 9: true}))
	f, _ := os.CreateTemp("", "probe")
	os.Remove(f.Name())
	fmt.Println(s, rand.Int63(), rand.Intn(1000), d, ks, f.Name())
}
`

// RtSeamSelfTest builds a probe program against the patched runtime and checks
// that map iteration order, global math/rand and temp names are a function of
// VERIF_RTSEED alone (across GOMAXPROCS settings) and differ between seeds.
func RtSeamSelfTest(runsPerSeed int) (map[string]any, error) {
	dir, err := os.MkdirTemp(simbuild.ScratchBase(), "verif-rtprobe-")
	if err != nil {
		return nil, err
	}
	defer os.RemoveAll(dir)
	patched, err := rt.Patched(simbuild.GoRoot())
	if err != nil {
		return nil, err
	}
	os.MkdirAll(filepath.Join(dir, "ov"), 0o755)
	os.WriteFile(filepath.Join(dir, "ov", "rand_verif.go"), patched, 0o644)
	ov, _ := json.Marshal(map[string]any{"Replace": map[string]string{filepath.Join(simbuild.GoRoot(), "src", "runtime", "rand.go"): filepath.Join(dir, "ov", "rand_verif.go")}})
	os.WriteFile(filepath.Join(dir, "overlay.json"), ov, 0o644)
	os.WriteFile(filepath.Join(dir, "go.mod"), []byte("module probe\n\ngo 1.26\n"), 0o644)
	os.WriteFile(filepath.Join(dir, "main.go"), []byte(rtProbeSrc), 0o644)
	cmd := exec.Command(filepath.Join(simbuild.GoRoot(), "bin", "go"), "build", "-overlay", filepath.Join(dir, "overlay.json"), "-o", filepath.Join(dir, "probe"), ".")
	cmd.Dir = dir
	cmd.Env = simbuild.GoEnv()
	if out, err := cmd.CombinedOutput(); err != nil {
		return nil, fmt.Errorf("rt seam probe build: %v: %s", err, out)
	}
	perSeed := map[string]map[string]int{}
	runs := 0
	for _, seed := range []string{"1", "2", "77"} {
		perSeed[seed] = map[string]int{}
		for i := 0; i < runsPerSeed; i++ {
			c := exec.Command(filepath.Join(dir, "probe"))
			c.Env = []string{"VERIF_RTSEED=" + seed, "GOMAXPROCS=" + []string{"1", "4", "16"}[i%3], "TMPDIR=" + dir, "PATH=/usr/bin:/bin"}
			out, err := c.Output()
			if err != nil {
				return nil, fmt.Errorf("rt seam probe run: %v", err)
			}
			perSeed[seed][strings.TrimSpace(string(out))]++
			runs++
		}
	}
	distinctAcross := map[string]bool{}
	for seed, outs := range perSeed {
		if len(outs) != 1 {
			return nil, fmt.Errorf("runtime seam is not deterministic: seed %s produced %d distinct outputs in %d runs", seed, len(outs), runsPerSeed)
		}
		for o := range outs {
			distinctAcross[o] = true
		}
	}
	if len(distinctAcross) != len(perSeed) {
		return nil, fmt.Errorf("runtime seam has no effect: different seeds gave identical output")
	}
	return map[string]any{"probe_runs": runs, "seeds": len(perSeed), "identical_per_seed": true, "distinct_across_seeds": true, "gomaxprocs": []int{1, 4, 16}}, nil
}
