package top

import (
	"fmt"

	"example.test/p2/asmpkg"
	"example.test/p2/gen"
)

type Coord struct {
	X, Y int
	Tag  string
}

func Lines() []string {
	ps := []gen.Pair[string, int]{{Key: "a", Val: 1}, {Key: "b", Val: 2}}
	c := Coord{X: 2, Y: 3, Tag: "c"}
	p := gen.Point(c)
	return []string{
		fmt.Sprint(asmpkg.Sum(5, 10, 20), asmpkg.Size(), asmpkg.Add(3, 4), asmpkg.Bump(), asmpkg.Bump()),
		fmt.Sprint(gen.MapKeys(ps), gen.Hidden(7)),
		p.String(),
		asmpkg.ShapeName(),
	}
}
