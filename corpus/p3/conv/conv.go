// Package conv reflects on one type in one function and converts a value of it
// to another named type in a different function. No function here forwards a
// parameter to a reflecting API, so the analysis of this package discovers no
// new reflecting function: whether the conversion target keeps its name must
// not depend on which of the two functions is visited first.
package conv

import (
	"fmt"
	"reflect"
)

type Wire struct{ WireA, WireB int }
type Converted Wire

func Reflects() string { return reflect.TypeOf(Wire{}).Name() }

func Converts() any { return Converted(Wire{WireA: 1, WireB: 2}) }

// NameOf prints the dynamic type's name without going through an `any`
// parameter that would itself be marked as reflecting.
func NameOf() string {
	s := fmt.Sprintf("%T", Converts())
	for i := len(s) - 1; i >= 0; i-- {
		if s[i] == '.' {
			return s[i+1:]
		}
	}
	return s
}
