package top

import (
	"fmt"

	"example.test/p1/mid1"
	"example.test/p1/mid2"
)

// Pair is declared in the dependant and reflected two helpers down.
type Pair struct {
	Left  mid1.Mid1
	Right mid2.Rec
}

func Report(tag string) []string {
	m := mid1.Make(tag)
	enc := mid2.Encode(len(tag), m.L)
	r, err := mid2.Decode(enc)
	out := []string{
		mid1.Show(m),
		mid1.Show(&m),
		enc,
		fmt.Sprint(err == nil, r.ID, r.Item.Name, r.Extra.Label),
		mid1.Show(Pair{Left: m, Right: r}),
		mid1.Show(mid1.MakeDeep()),
	}
	return out
}
