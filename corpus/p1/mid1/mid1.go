package mid1

import (
	"example.test/p1/leaf"
)

// Mid1 is declared here and reflected through leaf.Describe via Show.
type Mid1 struct {
	L   leaf.Leaf
	Tag string
}

// Show forwards to the reflecting helper one level down.
func Show(v any) string {
	return "mid1:" + leaf.Describe(v)
}

func Make(tag string) Mid1 {
	return Mid1{L: leaf.New(tag, len(tag)), Tag: tag}
}
