package checks

import (
	"encoding/json"
	"fmt"
	"math/rand"
	"os"
	"path/filepath"
	"strings"

	"verif.local/sim/engine"
	"verif.local/sim/world"
)

// C17 — concurrent garble processes never interfere.
//
// Two or three top-level garble commands are started together, sharing GOCACHE,
// GARBLE_CACHE and TMPDIR. Every garble process of every client parks at each
// routed call; the seeded scheduler releases one at a time, only when the
// whole system is quiescent, so an interleaving is a function of the seed and
// replays from its trace. Each client must exit 0 and produce the binary it
// produces alone. While the run proceeds: the patched linker is only ever
// executed in a completely written state, no client reads or writes inside
// another client's shared temp dir, cache hits return bytes that were put
// under that key, and the system never deadlocks.

func init() { Registry["C17"] = func() Check { return &c17{} } }

type c17 struct{}

func (c17) ID() string    { return "C17" }
func (c17) Level() string { return "exploration" }
func (c17) Rule() string {
	return "case = (2-3 clients each = (program, configuration, -p in {1,2,4}), start state in {template: user packages cold, linker cache empty: the linker must be patched and built while others wait, warm, aged: each client's final trim really deletes entries}, scheduling strategy in {random, sticky, PCT with 3 change points} + seed). Oracle: every client exits 0 with the binary of its isolated reference; monitors on the event history: linker executed only when its content equals the content at the time its stamp was written and no build of it is in flight, no access to another client's garble-shared dir, cache hits return put bytes, no deadlock. Non-trivial = at least one step had >= 2 enabled processes; distinct = distinct (clients, start state, schedule hash)."
}
func (c17) Assumptions() []string {
	return []string{
		"execution is serialised at routed calls: interleavings of shared-state events are explored, not of instructions inside one process (garble's own code is single-threaded)",
		"quiescence of uninstrumented go commands is detected from /proc (all threads asleep in wait-type syscalls, no CPU consumed); recorded traces replay by process identity and do not rely on it; the divergence rate of same-seed reruns is measured and reported",
		"no faults here: kills belong to C18, I/O errors to C19",
	}
}

func (c17) Prepare(e *Env) error {
	_, err := e.Template(c06TmplCfgs(e.Tier)...)
	return err
}

type c17Client struct {
	Prog string `json:"prog"`
	Cfg  string `json:"cfg"`
	P    int    `json:"p"`
}

type c17Params struct {
	Clients []c17Client `json:"clients"`
	Start   string      `json:"start"` // template | tool-empty | warm | aged
	Sched   SchedSpec   `json:"sched"`
	Tier    string      `json:"tier"`
	Twice   bool        `json:"twice,omitempty"` // determinism probe: run again and compare traces
}

func (c c17) Generate(e *Env) ([]*Case, error) {
	rng := rand.New(rand.NewSource(e.Seed))
	thorough := e.Tier == "thorough"
	var cases []*Case
	add := func(p c17Params) {
		p.Tier = e.Tier
		cases = append(cases, &Case{Property: "C17", Kind: "concurrent", Seed: e.Seed, Params: mustJSON(p)})
	}
	pool := c06Pool(e.Tier)
	ps := []int{1, 2, 4}
	scheds := []string{"random", "sticky", "pct"}
	starts := []string{"template", "tool-empty", "link-missing", "aged", "warm", "old-stamp", "template"}
	mixes := []func() []c17Client{
		func() []c17Client { // same project, same flags
			return []c17Client{{"p1", "default", ps[rng.Intn(3)]}, {"p1", "default", ps[rng.Intn(3)]}}
		},
		func() []c17Client { // same project, different flags
			return []c17Client{{"p1", "default", ps[rng.Intn(3)]}, {"p1", pool[1+rng.Intn(len(pool)-1)], ps[rng.Intn(3)]}}
		},
		func() []c17Client { // different projects
			return []c17Client{{"p1", "default", ps[rng.Intn(3)]}, {"p3", "default", ps[rng.Intn(3)]}}
		},
		func() []c17Client { // three clients
			return []c17Client{{"p1", "default", 2}, {"p3", pool[rng.Intn(len(pool))], 2}, {"p1", pool[1+rng.Intn(len(pool)-1)], 1}}
		},
		func() []c17Client { // same project, same non-default flags
			cfg := pool[1+rng.Intn(len(pool)-1)]
			return []c17Client{{"p3", cfg, ps[rng.Intn(3)]}, {"p3", cfg, ps[rng.Intn(3)]}}
		},
	}
	n := 21
	if thorough {
		n = 110
	}
	for i := 0; i < n; i++ {
		p := c17Params{Clients: mixes[i%len(mixes)](), Start: starts[i%len(starts)], Sched: SchedSpec{Kind: scheds[rng.Intn(3)], Seed: rng.Int63()}}
		if thorough && i%9 == 0 || !thorough && i%6 == 0 || os.Getenv("VERIF_TWICE_ALL") != "" {
			p.Twice = true
		}
		add(p)
	}
	return cases, nil
}

type c17Run struct {
	sim     *engine.Sim
	clients []*engine.Client
	outs    []string
	monitor string // first monitor violation, "" if none
	monKey  string

	halfWindows int // times a half-written linker output was exposed to the other clients
}

func (c c17) runOnce(e *Env, p c17Params, traces map[string][]engine.Step, label string) (*c17Run, *world.World, error) {
	tcfgs := c06TmplCfgs(p.Tier)
	tmpl, err := e.Template(tcfgs...)
	if err != nil {
		return nil, nil, err
	}
	w, err := world.New(e.Bin, "c17")
	if err != nil {
		return nil, nil, err
	}
	if err := w.Load(tmpl); err != nil {
		w.Close()
		return nil, nil, err
	}
	srcs := map[string]string{}
	for _, cl := range p.Clients {
		if _, ok := srcs[cl.Prog]; !ok {
			s, err := PrepareSource(w, cl.Prog, cl.Prog, nil)
			if err != nil {
				w.Close()
				return nil, nil, err
			}
			srcs[cl.Prog] = s
		}
	}
	switch p.Start {
	case "tool-empty":
		os.RemoveAll(filepath.Join(w.GarbleCache, "tool"))
	case "link-missing":
		// The linker binary is gone but its stamp is intact: whoever links first must rebuild it.
		os.Remove(filepath.Join(w.GarbleCache, "tool", "link"))
	case "old-stamp":
		// As link-missing, with the stamp in the format older garble versions wrote (first line only).
		os.Remove(filepath.Join(w.GarbleCache, "tool", "link"))
		vp := filepath.Join(w.GarbleCache, "tool", "link.version")
		if b, err := os.ReadFile(vp); err == nil {
			first, _, _ := strings.Cut(string(b), "\n")
			os.WriteFile(vp, []byte(first+"\n"), 0o777)
		}
	case "aged":
		ageTree(filepath.Join(w.GarbleCache, "build"), 7)
	case "warm":
		// Build every client's target once, alone and ungated, so that everything is cached.
		for i, cl := range p.Clients {
			cfg, _ := c06Config(cl.Cfg)
			if _, se, code := w.RunPlain(srcs[cl.Prog], cfg, "build", "-o", filepath.Join(w.Out, fmt.Sprintf("warm%d", i)), "."); code != 0 {
				w.Close()
				return nil, nil, fmt.Errorf("c17: warm-up build failed: %s", shortErr(se))
			}
		}
	}
	r := &c17Run{}
	for i, cl := range p.Clients {
		cfg, _ := c06Config(cl.Cfg)
		out := filepath.Join(w.Out, fmt.Sprintf("bin%d", i))
		r.outs = append(r.outs, out)
		r.clients = append(r.clients, w.Client(fmt.Sprintf("%c", 'A'+i), srcs[cl.Prog], cfg, "build", fmt.Sprintf("-p=%d", cl.P), "-o", out, "."))
	}
	// Monitors evaluated as the run proceeds.
	linkPath := filepath.Join(w.GarbleCache, "tool", "link")
	stampedHash := world.HashFile(linkPath) // complete linker that came with the start state ("" if none)
	building := map[string]bool{}           // processes between "linker build started" and "stamp written"
	sharedOwner := map[string]string{}      // garble-shared dir -> client tag
	seenLog := 0
	hook := func(s *engine.Sim, st engine.Step) {
		for ; seenLog < len(s.Log); seenLog++ {
			le := s.Log[seenLog]
			if le.Msg.T == "note" && le.Msg.Op == "created" && strings.Contains(filepath.Base(le.Msg.Path), "garble-shared") {
				sharedOwner[le.Msg.Path] = strings.SplitN(le.Proc, "/", 2)[0]
			}
		}
		cli := strings.SplitN(st.Proc, "/", 2)[0]
		if st.Op == "exec" && strings.Contains(st.Site, "buildLinker") {
			building[st.Proc] = true
		}
		if st.Op == "writefile" && strings.HasSuffix(st.Path, "/tool/link.version") {
			// The stamp is about to be written: the linker content it vouches for is the current one.
			stampedHash = world.HashFile(linkPath)
			delete(building, st.Proc)
		}
		if st.Op == "exec" && st.Path == linkPath && r.monitor == "" {
			if len(building) > 0 {
				r.monitor = fmt.Sprintf("%s executes the patched linker while %v is still building it", st.Proc, sortedKeys(building))
				r.monKey = "linker-used-while-being-built"
			} else if h := world.HashFile(linkPath); h != stampedHash || h == "" {
				r.monitor = fmt.Sprintf("%s executes a patched linker whose content (%.12s) is not the completely built one (%.12s)", st.Proc, h, stampedHash)
				r.monKey = "linker-used-half-written"
			}
		}
		if r.monitor == "" && st.Path != "" {
			for dir, owner := range sharedOwner {
				if owner != cli && (st.Path == dir || strings.HasPrefix(st.Path, dir+"/")) {
					r.monitor = fmt.Sprintf("%s (%s at %s) touches %s, the shared temp dir of client %s", st.Proc, st.Op, st.Site, st.Path, owner)
					r.monKey = "foreign-shared-dir-access"
				}
			}
		}
	}
	// While the producer of the linker has not returned from `go build -o`, the
	// others see a half-copied output: the tool run is real and atomic from the
	// simulator's point of view, so the in-flight state is emulated by truncating
	// the declared output while the producer is parked at its exec-done event and
	// restoring it right before the producer proceeds.
	saved := map[string][]byte{}
	outputOf := func(s *engine.Sim, proc string) string {
		for i := len(s.Log) - 1; i >= 0; i-- {
			le := s.Log[i]
			if le.Proc == proc && le.Msg.T == "ev" && le.Msg.Op == "exec" {
				for j, a := range le.Msg.Args {
					if a == "-o" && j+1 < len(le.Msg.Args) {
						return le.Msg.Args[j+1]
					}
				}
				return ""
			}
		}
		return ""
	}
	onPark := func(s *engine.Sim, pr *engine.Proc, ev *engine.Msg) {
		if ev.Op != "exec-done" || !strings.Contains(ev.Site, "buildLinker") || ev.Code != 0 {
			return
		}
		out := outputOf(s, pr.ID)
		if b, err := os.ReadFile(out); err == nil && len(b) > 0 {
			saved[pr.ID] = b
			os.Truncate(out, int64(len(b)/2))
			r.halfWindows++
		}
	}
	beforeRelease := func(s *engine.Sim, pr *engine.Proc, ev *engine.Msg) {
		if b, ok := saved[pr.ID]; ok && ev.Op == "exec-done" {
			os.WriteFile(outputOf(s, pr.ID), b, 0o755)
			delete(saved, pr.ID)
		}
	}
	s, err := runSimH(w, r.clients, p.Sched.Policy(), false, traces[label], simHooks{OnStep: hook, OnPark: onPark, BeforeRelease: beforeRelease})
	r.sim = s
	if err != nil {
		w.Close()
		return nil, nil, err
	}
	return r, w, nil
}

func (c c17) Run(e *Env, cs *Case) (*Outcome, error) {
	var p c17Params
	if err := json.Unmarshal(cs.Params, &p); err != nil {
		return nil, err
	}
	o := &Outcome{Faults: map[string]int{}, Probes: map[string]int{}, Traces: map[string][]engine.Step{}}
	r, w, err := c.runOnce(e, p, cs.Traces, "run")
	if err != nil {
		return nil, err
	}
	defer w.Close()
	s := r.sim
	o.SimRuns++
	o.Steps += len(s.Steps)
	o.Choice += s.Stats.ChoicePoints
	o.Traces["run"] = s.Steps
	o.SchedHash = schedHash(s.Steps)
	o.NonTrivial = s.Stats.ChoicePoints > 0
	q := p
	q.Twice = false
	o.Fingerprint = string(mustJSON(q)) + "|" + o.SchedHash
	o.Sample = map[string]any{"params": p, "steps": len(s.Steps), "steps_with_choice": s.Stats.ChoicePoints, "max_enabled": s.Stats.MaxEnabled, "lock_waits": s.Stats.LockWaits, "quiescence_probes": s.Stats.QuiesceProbes}
	if s.Stats.LockWaits > 0 {
		o.Probes["process-waited-for-a-file-lock"]++
	}
	o.Probes["half-written-linker-window-exposed"] += r.halfWindows
	for _, st := range s.Steps {
		if st.Op == "exec" && strings.Contains(st.Site, "buildLinker") {
			o.Probes["linker-built-during-run"]++
		}
	}
	var mix []string
	for _, cl := range p.Clients {
		mix = append(mix, cl.Prog+":"+cl.Cfg)
	}
	key := p.Start + "/" + strings.Join(mix, "+")
	viol := func(class, detail string) (*Outcome, error) {
		v := &Violation{Class: class, Key: class + "/" + key, Detail: detail}
		if o.Violation == nil {
			o.Violation = v
		} else {
			o.More = append(o.More, v)
		}
		return o, nil
	}
	if s.Deadlock {
		return viol("deadlock", "no process can proceed and none is running, yet a client is unfinished")
	}
	if r.monitor != "" {
		viol(r.monKey, r.monitor)
	}
	// cache hits return put bytes (keys put during this run).
	puts := map[string]map[string]bool{}
	twoPut := false
	for _, le := range s.Log {
		if le.Msg.T != "note" {
			continue
		}
		switch le.Msg.Op {
		case "cache-put":
			if puts[le.Msg.Key] == nil {
				puts[le.Msg.Key] = map[string]bool{}
			} else {
				twoPut = true
			}
			puts[le.Msg.Key][le.Msg.Sum] = true
		case "cache-get":
			if le.Msg.Err == "" {
				if known, ok := puts[le.Msg.Key]; ok && !known[le.Msg.Sum] {
					viol("cache-hit-wrong-bytes", fmt.Sprintf("%s: GetFile(%s) returned content %s never put under that key", le.Proc, le.Msg.Key, le.Msg.Sum))
				}
			}
		case "cache-trim-done":
			o.Probes["trim-ran"]++
		}
	}
	if twoPut {
		o.Probes["two-processes-put-the-same-key"]++
	}
	for i, cl := range r.clients {
		pc := p.Clients[i]
		cfg, _ := c06Config(pc.Cfg)
		if cl.ExitCode != 0 {
			viol("client-failed", fmt.Sprintf("client %s (%s %s -p %d) exited %d:\n%s", cl.Tag, pc.Prog, pc.Cfg, pc.P, cl.ExitCode, shortErr(cl.Stderr.String())))
			continue
		}
		ref, err := e.Reference(RefSpec{Prog: pc.Prog, Cfg: cfg, TmplCfgs: c06TmplCfgs(p.Tier)})
		if err != nil {
			return nil, err
		}
		if got := world.HashFile(r.outs[i]); got != ref.Sha {
			viol("binary-differs", fmt.Sprintf("client %s (%s %s): binary %.16s, alone it builds %.16s", cl.Tag, pc.Prog, pc.Cfg, got, ref.Sha))
		}
	}
	if lo := leftovers(w.Tmp); len(lo) > 0 && o.Violation == nil {
		o.Probes["leftovers-in-shared-tmpdir"]++
	}
	if p.Twice && o.Violation == nil {
		// Determinism probe: the same seed must give the same decision sequence.
		r2, w2, err := c.runOnce(e, p, nil, "run")
		if err != nil {
			return nil, err
		}
		w2.Close()
		o.SimRuns++
		o.Probes["determinism-pairs"]++
		a, b := s.Steps, r2.sim.Steps
		first := -1
		for i := 0; i < len(a) && i < len(b); i++ {
			if a[i].Proc != b[i].Proc || a[i].Seq != b[i].Seq || a[i].Op != b[i].Op || a[i].Enabled != b[i].Enabled {
				first = i
				break
			}
		}
		if first < 0 && len(a) != len(b) {
			first = min(len(a), len(b))
		}
		if first >= 0 {
			o.Probes["determinism-divergences"]++
			d := map[string]any{"first_divergence_at_step": first, "steps_run1": len(a), "steps_run2": len(b)}
			if first < len(a) {
				d["run1"] = fmt.Sprintf("%s#%d %s enabled=%d", a[first].Proc, a[first].Seq, a[first].Op, a[first].Enabled)
			}
			if first < len(b) {
				d["run2"] = fmt.Sprintf("%s#%d %s enabled=%d", b[first].Proc, b[first].Seq, b[first].Op, b[first].Enabled)
			}
			if first > 0 {
				d["previous"] = fmt.Sprintf("%s#%d %s", a[first-1].Proc, a[first-1].Seq, a[first-1].Op)
			}
			if m, ok := o.Sample.(map[string]any); ok {
				m["determinism_divergence"] = d
			}
			e.SetExtra(fmt.Sprintf("divergence_%s", o.SchedHash), d)
		}
	}
	return o, nil
}

func (c c17) Shrink(cs *Case) []*Case {
	var p c17Params
	if json.Unmarshal(cs.Params, &p) != nil {
		return nil
	}
	var out []*Case
	mk := func(q c17Params) {
		q.Twice = false
		nc := *cs
		nc.Params = mustJSON(q)
		nc.Traces = nil
		out = append(out, &nc)
	}
	if p.Sched.Kind != "canonical" {
		// Simplest schedule first: always release the lowest process identity.
		q := p
		q.Sched = SchedSpec{Kind: "canonical"}
		mk(q)
	}
	allOne := true
	for _, cl := range p.Clients {
		if cl.P != 1 {
			allOne = false
		}
	}
	if !allOne {
		q := p
		q.Clients = append([]c17Client{}, p.Clients...)
		for i := range q.Clients {
			q.Clients[i].P = 1
		}
		mk(q)
	}
	if len(p.Clients) > 2 {
		for i := range p.Clients {
			q := p
			q.Clients = append(append([]c17Client{}, p.Clients[:i]...), p.Clients[i+1:]...)
			nc := *cs
			nc.Params = mustJSON(q)
			nc.Traces = nil
			out = append(out, &nc)
		}
	}
	return out
}
