package checks

import (
	"encoding/json"
	"fmt"
	"math/rand"
	"os"
	"path/filepath"
	"sort"
	"strings"
	"syscall"

	"verif.local/sim/engine"
	"verif.local/sim/world"
)

// C19 — garble touches only its own files.
//
// Commands {build, run, reverse, map} are run to completion (no kills) with
// outcomes produced by input (broken source, bad flags) and by injection: the
// simulator fails one gated call with ENOSPC/EACCES/EIO, or makes one tool run
// exit non-zero, at each event index in turn. Pre-existing -debugdir targets of
// every kind are planted. After the command returns — success or failure —
// the source tree is byte-identical, TMPDIR holds nothing garble created, a
// foreign debugdir target is untouched (and the command failed), an owned one
// holds the complete trees, and no mutating call in the event log touched a
// path outside {output, TMPDIR, caches, debugdir}.

func init() { Registry["C19"] = func() Check { return &c19{} } }

type c19 struct{}

func (c19) ID() string    { return "C19" }
func (c19) Level() string { return "fault_enumeration" }
func (c19) Rule() string {
	return "case = (command in {build, run, reverse, map}, start state in {warm: caches hold the finished build, cold: user packages not built}, source variant in {ok, type error in a dependency, syntax error, undefined symbol in main}, flag variant, pre-existing -debugdir target in {none, absent, empty, owned, owned+stale, foreign files, foreign subdirs, symlink->owned, symlink->foreign, regular file}, injected fault = (event index of the recorded run, kind in {ENOSPC, EACCES, EIO, toolfail})). Enumerated: every event index of the warm build, reverse and map runs x error kinds (thorough: all three errnos; quick: one seeded errno per index), every debugdir target state x {warm, injected failure}; cold-build indexes are sampled. Non-trivial = a fault fired or the input/target state made the command fail or exercise the debugdir logic; distinct = distinct tuples."
}
func (c19) Assumptions() []string {
	return []string{
		"no kills: the property is about commands that return",
		"go-build* work directories belong to cmd/go, not garble, and are not counted as garble leftovers",
		"a symlink pointing at a garble-owned debug directory may be replaced by a real directory; only the foreign-target cases must leave link and target untouched",
	}
}

func (c19) Prepare(e *Env) error {
	if _, err := e.Template(cfgDefault); err != nil {
		return err
	}
	_, err := e.Template(cfgDebugDir)
	return err
}

type c19Inject struct {
	// The event is addressed by process identity and per-process event number,
	// which stay valid even if other processes' event counts shift.
	Proc  string `json:"proc"`
	Seq   int    `json:"seq"`
	Kind  string `json:"kind"` // fail | toolfail
	Errno int    `json:"errno,omitempty"`
	Site  string `json:"site,omitempty"`
	Op    string `json:"op,omitempty"`
}

type c19Params struct {
	Cmd      string     `json:"cmd"`   // build | run | reverse | map
	State    string     `json:"state"` // warm | cold
	Source   string     `json:"source,omitempty"`
	Flags    string     `json:"flags,omitempty"` // bad-flag | garble-flag-after | gogarble-nomatch | no-o
	DebugDir string     `json:"debugdir,omitempty"`
	Inject   *c19Inject `json:"inject,omitempty"`
	Ungated  bool       `json:"ungated,omitempty"` // run outside the gate (full rebuilds; end-state invariants only)
	// NoRestore fails every cache index read of the top-level process after the
	// nested go command returned, so that nothing is restored into the debug dir.
	NoRestore bool `json:"no_restore,omitempty"`
}

func c19BreakSource(src, how string) error {
	switch how {
	case "", "ok":
		return nil
	case "typeerror-dep":
		f := filepath.Join(src, "mid1", "mid1.go")
		b, _ := os.ReadFile(f)
		return os.WriteFile(f, append(b, []byte("\nvar brokenVar int = \"not an int\"\n")...), 0o644)
	case "syntax":
		f := filepath.Join(src, "top", "top.go")
		b, _ := os.ReadFile(f)
		return os.WriteFile(f, append(b, []byte("\nfunc broken( {\n")...), 0o644)
	case "undefined-main":
		f := filepath.Join(src, "main.go")
		b, _ := os.ReadFile(f)
		return os.WriteFile(f, append(b, []byte("\nfunc missingBody() int\nvar _ = missingBody()\n")...), 0o644)
	case "import-missing":
		f := filepath.Join(src, "leaf", "leaf.go")
		b, _ := os.ReadFile(f)
		s := strings.Replace(string(b), "import (", "import (\n\t_ \"example.test/p1/doesnotexist\"", 1)
		return os.WriteFile(f, []byte(s), 0o644)
	}
	return fmt.Errorf("unknown source variant %q", how)
}

// plant creates the pre-existing -debugdir target; returns the paths whose
// content must stay untouched (foreign) and whether the command must fail.
func c19Plant(w *world.World, state string) (foreign []string, mustFail bool, err error) {
	dd := filepath.Join(w.Out, "debugdir")
	other := filepath.Join(w.Out, "elsewhere")
	switch state {
	case "", "none", "absent":
	case "empty":
		err = os.MkdirAll(dd, 0o755)
	case "owned":
		os.MkdirAll(filepath.Join(dd, "garbled"), 0o755)
		err = os.WriteFile(filepath.Join(dd, ".garble-debugdir"), nil, 0o644)
	case "owned-stale":
		os.MkdirAll(filepath.Join(dd, "source", "old", "pkg"), 0o755)
		os.WriteFile(filepath.Join(dd, "source", "old", "pkg", "stale.go"), []byte("package stale\n"), 0o644)
		err = os.WriteFile(filepath.Join(dd, ".garble-debugdir"), nil, 0o644)
	case "foreign-files":
		os.MkdirAll(dd, 0o755)
		err = os.WriteFile(filepath.Join(dd, "precious.txt"), []byte("user data\n"), 0o644)
		foreign, mustFail = []string{dd}, true
	case "foreign-subdirs":
		os.MkdirAll(filepath.Join(dd, "source", "mine"), 0o755)
		err = os.WriteFile(filepath.Join(dd, "source", "mine", "keep.go"), []byte("package mine\n"), 0o644)
		foreign, mustFail = []string{dd}, true
	case "symlink-owned":
		os.MkdirAll(other, 0o755)
		os.WriteFile(filepath.Join(other, ".garble-debugdir"), nil, 0o644)
		err = os.Symlink(other, dd)
	case "symlink-foreign":
		os.MkdirAll(other, 0o755)
		os.WriteFile(filepath.Join(other, "precious.txt"), []byte("user data\n"), 0o644)
		err = os.Symlink(other, dd)
		foreign, mustFail = []string{dd, other}, true
	case "regular-file":
		err = os.WriteFile(dd, []byte("I am a file\n"), 0o644)
		foreign, mustFail = []string{dd}, true
	default:
		err = fmt.Errorf("unknown debugdir state %q", state)
	}
	return
}

func hashPath(p string) string {
	fi, err := os.Lstat(p)
	if err != nil {
		return "absent"
	}
	if fi.Mode()&os.ModeSymlink != 0 {
		l, _ := os.Readlink(p)
		return "symlink:" + l
	}
	if fi.IsDir() {
		return "dir:" + world.HashTree(p, nil)
	}
	return "file:" + world.HashFile(p)
}

// world for one case: caches per start state, fresh source copy.
func (c c19) start(e *Env, p c19Params) (*world.World, world.Config, error) {
	cfg := cfgDefault
	if p.DebugDir != "" && p.DebugDir != "none" {
		cfg = cfgDebugDir
	}
	w, err := world.New(e.Bin, "c19")
	if err != nil {
		return nil, cfg, err
	}
	if p.State == "warm" {
		snap, err := (c07{}).snapshot(e, "p1", cfg.Name == "debugdir")
		if err == nil {
			if err = world.CpA(filepath.Join(snap.Dir, "gocache"), w.GoCache); err == nil {
				err = world.CpA(filepath.Join(snap.Dir, "garblecache"), w.GarbleCache)
			}
		}
		if err != nil {
			w.Close()
			return nil, cfg, err
		}
	} else {
		tmpl, err := e.Template(cfg)
		if err == nil {
			err = w.Load(tmpl)
		}
		if err != nil {
			w.Close()
			return nil, cfg, err
		}
	}
	switch p.Flags {
	case "gogarble-nomatch":
		cfg.Env = map[string]string{"GOGARBLE": "example.test/nothing-matches"}
	}
	return w, cfg, nil
}

func (c c19) client(w *world.World, cfg world.Config, src string, p c19Params) *engine.Client {
	out := filepath.Join(w.Out, "bin")
	var cl *engine.Client
	switch p.Cmd {
	case "build":
		args := []string{"-p=1", "-o", out, "."}
		switch p.Flags {
		case "bad-flag":
			args = []string{"-p=1", "-nosuchflag", "-o", out, "."}
		case "garble-flag-after":
			args = []string{"-tiny", "-o", out, "."}
		case "no-o":
			args = []string{"-p=1", "."}
		}
		cl = w.Client("A", src, cfg, "build", args...)
	case "run":
		cl = w.Client("A", src, cfg, "run", "-p=1", ".")
	case "reverse":
		args := []string{"."}
		if p.Flags == "bad-flag" {
			args = []string{"-nosuchflag", "."}
		}
		cl = w.Client("A", src, cfg, "reverse", args...)
		cl.Stdin = []byte("goroutine 1 [running]:\nmain.main()\n\tsome/file.go:12 +0x1d\nnothing obfuscated here\n")
	case "map":
		args := []string{"./..."}
		if p.Flags == "bad-flag" {
			args = []string{"-nosuchflag", "./..."}
		}
		cl = w.Client("A", src, cfg, "map", args...)
	}
	return cl
}

func (c c19) record(e *Env, p c19Params) ([]engine.Step, error) {
	q := p
	q.Inject = nil
	key := "c19rec:" + string(mustJSON(q))
	v, err := e.Memo(key, func() (any, error) {
		w, cfg, err := c.start(e, q)
		if err != nil {
			return nil, err
		}
		defer w.Close()
		src, err := PrepareSource(w, "p1", "p1", nil)
		if err != nil {
			return nil, err
		}
		if _, _, err := c19Plant(w, q.DebugDir); err != nil {
			return nil, err
		}
		cl := c.client(w, cfg, src, q)
		s, err := runSim(w, []*engine.Client{cl}, engine.Canonical{}, true, nil, nil)
		if err != nil {
			return nil, err
		}
		if cl.ExitCode != 0 && !(q.Cmd == "reverse" && cl.ExitCode == 1) {
			return nil, fmt.Errorf("c19: recording run of %s (%s) failed with %d: %s", q.Cmd, q.State, cl.ExitCode, shortErr(cl.Stderr.String()))
		}
		return s.Steps, nil
	})
	if err != nil {
		return nil, err
	}
	return v.([]engine.Step), nil
}

var c19Errnos = []int{int(syscall.ENOSPC), int(syscall.EACCES), int(syscall.EIO)}

func (c c19) Generate(e *Env) ([]*Case, error) {
	rng := rand.New(rand.NewSource(e.Seed))
	thorough := e.Tier == "thorough"
	var cases []*Case
	add := func(p c19Params) {
		cases = append(cases, &Case{Property: "C19", Kind: "cmd", Seed: e.Seed, Params: mustJSON(p)})
	}
	injectAll := func(base c19Params, sample int) error {
		steps, err := c.record(e, base)
		if err != nil {
			return err
		}
		var idx []int
		for i, st := range steps {
			// With a -debugdir target every build is a full -a rebuild of thousands
			// of events; only the top-level process (debugdir handling, clean-up,
			// restore from cache) is of interest there.
			if base.DebugDir != "" && !strings.HasPrefix(st.Proc, "A/top#") {
				continue
			}
			idx = append(idx, i)
		}
		if base.DebugDir != "" && sample > 0 {
			// Events before the nested go command (debugdir handling) fail fast and are
			// cheap; events after it (restore from cache, clean-up) cost a full rebuild
			// each: take most of the sample from the former.
			var pre, post []int
			for _, i := range idx {
				if steps[i].Seq <= 25 {
					pre = append(pre, i)
				} else {
					post = append(post, i)
				}
			}
			rng.Shuffle(len(post), func(i, j int) { post[i], post[j] = post[j], post[i] })
			nPost := max(2, sample/5)
			idx = append(pre, post[:min(nPost, len(post))]...)
			sort.Ints(idx)
		} else if sample > 0 && sample < len(idx) {
			rng.Shuffle(len(idx), func(i, j int) { idx[i], idx[j] = idx[j], idx[i] })
			idx = idx[:sample]
			sort.Ints(idx)
		}
		for _, k := range idx {
			st := steps[k]
			if st.Op == "start" || st.Op == "exec-done" || st.Op == "funlock" || st.Op == "flock-blocked" {
				continue // nothing to fail at these events
			}
			if st.Op == "exec" || st.Op == "exec-start" {
				p := base
				p.Inject = &c19Inject{Proc: st.Proc, Seq: st.Seq, Kind: "toolfail", Site: st.Site, Op: st.Op}
				add(p)
				continue
			}
			errnos := c19Errnos
			if !thorough {
				errnos = []int{c19Errnos[rng.Intn(3)]}
			}
			for _, en := range errnos {
				p := base
				p.Inject = &c19Inject{Proc: st.Proc, Seq: st.Seq, Kind: "fail", Errno: en, Site: st.Site, Op: st.Op}
				add(p)
			}
		}
		return nil
	}
	q := func(full, quick int) int {
		if thorough {
			return full
		}
		return quick
	}
	// 1. fault-free commands and failure by input.
	for _, cmd := range []string{"build", "run", "reverse", "map"} {
		add(c19Params{Cmd: cmd, State: "warm"})
	}
	add(c19Params{Cmd: "build", State: "cold"})
	add(c19Params{Cmd: "build", State: "warm", Flags: "no-o"})
	for _, src := range []string{"typeerror-dep", "syntax", "undefined-main", "import-missing"} {
		add(c19Params{Cmd: "build", State: "warm", Source: src})
		if thorough || src == "syntax" {
			add(c19Params{Cmd: "reverse", State: "warm", Source: src})
			add(c19Params{Cmd: "map", State: "warm", Source: src})
			add(c19Params{Cmd: "run", State: "warm", Source: src})
		}
	}
	for _, fl := range []string{"bad-flag", "garble-flag-after", "gogarble-nomatch"} {
		add(c19Params{Cmd: "build", State: "warm", Flags: fl})
	}
	add(c19Params{Cmd: "reverse", State: "warm", Flags: "bad-flag"})
	add(c19Params{Cmd: "map", State: "warm", Flags: "bad-flag"})
	add(c19Params{Cmd: "map", State: "warm", Flags: "gogarble-nomatch"})
	// 2. injection at every event of the warm build / reverse / map, sampled for run and the cold build.
	if err := injectAll(c19Params{Cmd: "build", State: "warm"}, q(0, 14)); err != nil {
		return nil, err
	}
	if err := injectAll(c19Params{Cmd: "reverse", State: "warm"}, q(0, 6)); err != nil {
		return nil, err
	}
	if err := injectAll(c19Params{Cmd: "map", State: "warm"}, q(0, 6)); err != nil {
		return nil, err
	}
	if err := injectAll(c19Params{Cmd: "run", State: "warm"}, q(12, 3)); err != nil {
		return nil, err
	}
	if err := injectAll(c19Params{Cmd: "build", State: "cold"}, q(60, 8)); err != nil {
		return nil, err
	}
	// 3. every pre-existing -debugdir target, on warm caches (restore-from-cache path) ...
	states := []string{"absent", "empty", "owned", "owned-stale", "foreign-files", "foreign-subdirs", "symlink-owned", "symlink-foreign", "regular-file"}
	for _, st := range states {
		p := c19Params{Cmd: "build", State: "warm", DebugDir: st}
		// Accepted targets mean a full -a rebuild (garble forces it for -debugdir);
		// in the quick tier only one of them runs under the gate.
		if !thorough && (st == "absent" || st == "empty" || st == "owned" || st == "symlink-owned") {
			p.Ungated = true
		}
		add(p)
	}
	// ... with the restore-from-cache step starved of every cache entry: what the
	// build itself wrote must already be the complete, correct trees ...
	add(c19Params{Cmd: "build", State: "warm", DebugDir: "owned", NoRestore: true})
	// ... with injected failures in the debugdir handling of the top-level process ...
	if err := injectAll(c19Params{Cmd: "build", State: "warm", DebugDir: "owned-stale"}, q(40, 10)); err != nil {
		return nil, err
	}
	if thorough {
		if err := injectAll(c19Params{Cmd: "build", State: "warm", DebugDir: "absent"}, 30); err != nil {
			return nil, err
		}
		// ... and one cold -debugdir build (full -a rebuild) so that cold and warm trees are compared.
		add(c19Params{Cmd: "build", State: "cold", DebugDir: "owned-stale"})
	}
	// 4. -debugdir after a build without it: the caches hold compiled packages whose
	// debug artifacts were never stored (outside the gate: two full rebuilds).
	add(c19Params{Cmd: "dd-history", State: "cold", Source: "."})
	if thorough {
		add(c19Params{Cmd: "dd-history", State: "cold", Source: "leaf"})
		add(c19Params{Cmd: "dd-history", State: "cold", Source: "top"})
	}
	e.SetExtra("exhaustive", false)
	e.SetExtra("exhaustive_note", "thorough: every event index of the warm build (with and without a debugdir target), reverse and map runs x {ENOSPC, EACCES, EIO, toolfail}; every debugdir target state; cold-build and run indexes sampled")
	e.SetExtra("fault_kinds_expected", []string{"fail"})
	return cases, nil
}

// runHistory: `garble -debugdir build`, edit main, `garble build` (no -debugdir),
// `garble -debugdir build` again on the same caches. The debug dir must end up
// holding the complete trees of the final source, as a cold build gives.
func (c c19) runHistory(e *Env, cs *Case, p c19Params) (*Outcome, error) {
	tmpl, err := e.Template(cfgDebugDir)
	if err != nil {
		return nil, err
	}
	w, err := world.New(e.Bin, "c19h")
	if err != nil {
		return nil, err
	}
	defer w.Close()
	if err := w.Load(tmpl); err != nil {
		return nil, err
	}
	src, err := PrepareSource(w, "p1", "p1", nil)
	if err != nil {
		return nil, err
	}
	o := &Outcome{Faults: map[string]int{}, Probes: map[string]int{}, Traces: map[string][]engine.Step{}}
	o.NonTrivial = true
	o.Fingerprint = string(cs.Params)
	out := filepath.Join(w.Out, "bin")
	ed := Edit{Pkg: p.Source, Kind: "body", N: 8}
	steps := []struct {
		cfg  world.Config
		edit bool
	}{{cfgDebugDir, false}, {cfgDefault, true}, {cfgDebugDir, false}}
	for i, st := range steps {
		if st.edit {
			if err := ApplyEdit(src, ed); err != nil {
				return nil, err
			}
		}
		_, se, code := w.RunPlain(src, st.cfg, "build", "-o", out, ".")
		o.SimRuns++
		if code != 0 {
			o.Violation = &Violation{Class: "command-failed", Key: "command-failed/dd-history/" + p.Source, Detail: fmt.Sprintf("step %d of the -debugdir history failed: %s", i, shortErr(se))}
			return o, nil
		}
	}
	ref, err := e.Reference(RefSpec{Prog: "p1", Edits: []Edit{ed}, Cfg: cfgDebugDir, DebugDir: true})
	if err != nil {
		return nil, err
	}
	deps, err := e.Deps("p1", []Edit{ed})
	if err != nil {
		return nil, err
	}
	sum, n, _ := DebugDirSum(filepath.Join(w.Out, "debugdir"), deps)
	o.Sample = map[string]any{"params": p, "debugdir_files": n, "reference_files": ref.DebugN}
	o.Probes["debugdir-tree-compared"]++
	if sum != ref.DebugSum {
		o.Violation = &Violation{Class: "debugdir-incomplete", Key: "debugdir-incomplete/dd-history/" + p.Source,
			Detail: fmt.Sprintf("history `-debugdir build; edit %s; build; -debugdir build`: the debug dir holds %d files and differs from a cold -debugdir build of the same source (%d files)", p.Source, n, ref.DebugN)}
	}
	if lo := leftovers(w.Tmp); len(lo) > 0 && o.Violation == nil {
		o.Violation = &Violation{Class: "tmpdir-leftover", Key: "tmpdir-leftover/dd-history", Detail: fmt.Sprintf("left in TMPDIR: %v", lo)}
	}
	return o, nil
}

func (c c19) Run(e *Env, cs *Case) (*Outcome, error) {
	var p c19Params
	if err := json.Unmarshal(cs.Params, &p); err != nil {
		return nil, err
	}
	if p.Cmd == "dd-history" {
		return c.runHistory(e, cs, p)
	}
	w, cfg, err := c.start(e, p)
	if err != nil {
		return nil, err
	}
	defer w.Close()
	src, err := PrepareSource(w, "p1", "p1", nil)
	if err != nil {
		return nil, err
	}
	if err := c19BreakSource(src, p.Source); err != nil {
		return nil, err
	}
	foreign, mustFail, err := c19Plant(w, p.DebugDir)
	if err != nil {
		return nil, err
	}
	skipOut := func(rel string) bool { return p.Flags == "no-o" && rel == "p1" } // the requested output
	srcBefore := world.HashTree(src, skipOut)
	foreignBefore := map[string]string{}
	for _, f := range foreign {
		foreignBefore[f] = hashPath(f)
	}
	tmpBefore := world.ListAll(w.Tmp)
	cl := c.client(w, cfg, src, p)
	pol := &engine.WithFaults{Sched: engine.Canonical{}, AtStep: map[int]engine.Action{}}
	injectedPath, injectedOp := "", ""
	if p.Inject != nil {
		in := p.Inject
		pol.Decide = func(s *engine.Sim, pr *engine.Proc, ev *engine.Msg) (engine.Action, bool) {
			if pr.ID != in.Proc || pr.Seq != in.Seq {
				return engine.Action{}, false
			}
			injectedPath, injectedOp = ev.Path, ev.Op
			if in.Kind == "toolfail" {
				return engine.Action{Kind: "toolfail"}, true
			}
			return engine.Action{Kind: "fail", Errno: in.Errno}, true
		}
	}
	if p.NoRestore {
		// Every read of a cache index by the top-level process AFTER the nested go
		// command has returned fails: the restore-from-cache step finds nothing, so
		// the debug dir keeps exactly what the build itself wrote. It must still be
		// the same trees (the restore step may only ever rewrite identical bytes).
		afterBuild := false
		pol.Decide = func(s *engine.Sim, pr *engine.Proc, ev *engine.Msg) (engine.Action, bool) {
			if !strings.HasPrefix(pr.ID, "A/top#") {
				return engine.Action{}, false
			}
			if ev.Op == "exec-done" && strings.Contains(ev.Site, "mainErr/os/exec.Cmd.Run") {
				afterBuild = true
			}
			if afterBuild && ev.Op == "open" && strings.Contains(ev.Site, "cache.Cache.get/os.Open") {
				return engine.Action{Kind: "fail", Errno: int(syscall.EIO)}, true
			}
			return engine.Action{}, false
		}
	}
	var s *engine.Sim
	ungated := p.Ungated || (p.State == "cold" && cfg.Name == "debugdir")
	if ungated {
		_, se, code := w.RunPlain(src, cfg, "build", "-o", filepath.Join(w.Out, "bin"), ".")
		cl.ExitCode = code
		cl.Stderr.WriteString(se)
		s = &engine.Sim{}
	} else {
		// Serial canonical execution is a function of the parameters; the recorded
		// trace in a replay file is informational.
		s, err = runSim(w, []*engine.Client{cl}, pol, true, nil, nil)
		if err != nil {
			return nil, err
		}
	}
	o := &Outcome{Faults: map[string]int{}, Probes: map[string]int{}, Traces: map[string][]engine.Step{"cmd": s.Steps}}
	o.SimRuns = 1
	o.Steps = len(s.Steps)
	fired := false
	for _, st := range s.Steps {
		if st.Act.Kind != "go" {
			o.Faults[st.Act.Kind]++
			fired = true
		}
	}
	failed := cl.ExitCode != 0
	o.NonTrivial = fired || failed || (p.DebugDir != "" && p.DebugDir != "none")
	q := p
	if q.Inject != nil {
		q.Inject = &c19Inject{Proc: p.Inject.Proc, Seq: p.Inject.Seq, Kind: p.Inject.Kind, Errno: p.Inject.Errno}
	}
	o.Fingerprint = string(mustJSON(q))
	o.Sample = map[string]any{"params": p, "exit": cl.ExitCode, "steps": len(s.Steps), "stderr": firstLines(shortErr(cl.Stderr.String()), 3)}
	if failed {
		o.Probes["command-failed"]++
	}
	key := p.Cmd + "/" + p.State
	if p.Source != "" {
		key += "/src:" + p.Source
	}
	if p.Flags != "" {
		key += "/flags:" + p.Flags
	}
	if p.DebugDir != "" {
		key += "/dd:" + p.DebugDir
	}
	if p.Inject != nil {
		key += fmt.Sprintf("/inject:%s:%d@%s[%s]", p.Inject.Kind, p.Inject.Errno, p.Inject.Site, p.Inject.Op)
	}
	if p.NoRestore {
		key += "/no-restore"
	}
	viol := func(class, detail string) (*Outcome, error) {
		o.Violation = &Violation{Class: class, Key: class + "/" + key, Detail: detail + fmt.Sprintf("\ncommand exit status %d; stderr: %s", cl.ExitCode, firstLines(shortErr(cl.Stderr.String()), 6))}
		return o, nil
	}
	if s.Deadlock {
		return viol("deadlock", "the command cannot make progress")
	}
	// (1) source tree untouched apart from the requested output.
	if srcAfter := world.HashTree(src, skipOut); srcAfter != srcBefore {
		return viol("source-tree-modified", "the source tree differs after the command")
	}
	// (2) nothing of garble's left in TMPDIR.
	if lo := leftovers(w.Tmp); len(lo) > 0 {
		// Deliberate, narrow relaxation: when the injected fault made the removal
		// of that very directory fail, garble cannot be expected to have removed it
		// (it reports the failure); anything else left behind is a violation.
		cleanupItselfFailed := (injectedOp == "removeall" || injectedOp == "remove") && len(lo) == 1 && injectedPath == filepath.Join(w.Tmp, lo[0])
		if !cleanupItselfFailed {
			return viol("tmpdir-leftover", fmt.Sprintf("left in TMPDIR after the command returned: %v", lo))
		}
		o.Probes["cleanup-call-itself-failed"]++
	}
	tmpAfter := world.ListAll(w.Tmp)
	if len(tmpAfter) > len(tmpBefore) {
		var extra []string
		for _, f := range tmpAfter {
			if !strings.HasPrefix(f, "go-build") && !(o.Probes["cleanup-call-itself-failed"] > 0 && strings.HasPrefix(f, "garble-shared")) {
				extra = append(extra, f)
			}
		}
		if len(extra) > 0 {
			return viol("tmpdir-leftover", fmt.Sprintf("new entries in TMPDIR: %v", extra[:min(5, len(extra))]))
		}
	}
	// (3) foreign debugdir target untouched and the command failed.
	for _, f := range foreign {
		if got := hashPath(f); got != foreignBefore[f] {
			return viol("foreign-debugdir-modified", fmt.Sprintf("%s was changed (%s -> %s)", strings.TrimPrefix(f, w.Out+"/"), foreignBefore[f][:min(24, len(foreignBefore[f]))], got[:min(24, len(got))]))
		}
	}
	if mustFail && !failed {
		return viol("foreign-debugdir-accepted", "the command succeeded although the -debugdir target is not garble's")
	}
	// (4) an owned target holds the complete trees (same as a cold isolated build).
	if cfg.Name == "debugdir" && !mustFail && !failed && p.Cmd == "build" {
		ref, err := e.Reference(RefSpec{Prog: "p1", Cfg: cfgDebugDir, DebugDir: true})
		if err != nil {
			return nil, err
		}
		deps, err := e.Deps("p1", nil)
		if err != nil {
			return nil, err
		}
		sum, n, extras := DebugDirSum(filepath.Join(w.Out, "debugdir"), deps)
		o.Probes["debugdir-files-of-unbuilt-packages"] += extras
		if sum != ref.DebugSum {
			if p.Inject != nil {
				// The same defect shows at this call site whatever the errno and the
				// state of the target directory: key it by the site alone.
				o.Violation = &Violation{Class: "debugdir-incomplete", Key: fmt.Sprintf("debugdir-incomplete/inject@%s[%s]", p.Inject.Site, p.Inject.Op),
					Detail: fmt.Sprintf("%s with errno %d injected at %s (event %d of %s): the command exits %d, yet the -debugdir trees of the build's packages (%d files) differ from the cold reference (%d files)", key, p.Inject.Errno, p.Inject.Site, p.Inject.Seq, p.Inject.Proc, cl.ExitCode, n, ref.DebugN)}
				return o, nil
			}
			return viol("debugdir-incomplete", fmt.Sprintf("the -debugdir trees of the build's packages have %d files and differ from the cold reference (%d files)", n, ref.DebugN))
		}
		o.Probes["debugdir-tree-compared"]++
	}
	// (5) no mutating call outside {output, TMPDIR, caches, debugdir}.
	allowed := []string{w.Tmp, w.GarbleCache, w.GoCache, w.Out}
	if p.Flags == "no-o" {
		allowed = append(allowed, filepath.Join(src, "p1"))
	}
	for _, le := range s.Log {
		m := le.Msg
		if m.T != "ev" {
			continue
		}
		switch m.Op {
		case "openw", "write", "writefile", "close", "chtimes", "rename", "mkdirall", "mkdir", "mkdirtemp", "createtemp", "remove", "removeall", "ftruncate", "truncate", "symlink":
		default:
			continue
		}
		for _, pth := range []string{m.Path, m.Path2} {
			if pth == "" || pth == "importcfg" || pth == "garble-shared" || !filepath.IsAbs(pth) {
				continue
			}
			ok := false
			for _, a := range allowed {
				if pth == a || strings.HasPrefix(pth, a+"/") {
					ok = true
				}
			}
			if !ok {
				return viol("write-outside-own-files", fmt.Sprintf("%s %s by %s at %s", m.Op, pth, le.Proc, m.Site))
			}
		}
	}
	// A fault-free, well-formed command must succeed.
	if p.Inject == nil && p.Source == "" && p.Flags == "" || p.Flags == "no-o" {
		if !mustFail && failed && !(p.Cmd == "reverse" && cl.ExitCode == 1) {
			return viol("command-failed", "a fault-free command on a valid program failed")
		}
	}
	return o, nil
}

func (c c19) Shrink(cs *Case) []*Case {
	var p c19Params
	if json.Unmarshal(cs.Params, &p) != nil {
		return nil
	}
	var out []*Case
	mk := func(q c19Params) {
		nc := *cs
		nc.Params = mustJSON(q)
		nc.Traces = nil
		out = append(out, &nc)
	}
	if p.Inject != nil && (p.Source != "" || p.Flags != "" || p.DebugDir != "") {
		q := p
		q.Source, q.Flags, q.DebugDir = "", "", ""
		mk(q)
	}
	if p.Inject != nil && p.Inject.Kind == "fail" && p.Inject.Errno != int(syscall.ENOSPC) {
		q := p
		in := *p.Inject
		in.Errno = int(syscall.ENOSPC)
		q.Inject = &in
		mk(q)
	}
	return out
}
