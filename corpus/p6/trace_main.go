package main

import (
	"fmt"

	"example.test/p6/lib"
)

type runner struct{ name string }

func (r runner) run() string {
	t := &lib.Tracer{Depth: 1}
	return t.Walk()
}

func unexportedEntry() string {
	r := runner{name: "r"}
	return r.run()
}

func main() {
	fmt.Print(unexportedEntry())
	fmt.Println("plain text line with nothing obfuscated: func main() { return }")
}
