package checks

import (
	"encoding/json"
	"fmt"
	"math/rand"
	"path/filepath"
	"strings"

	"verif.local/sim/engine"
	"verif.local/sim/world"
)

// C06 — cached builds never go stale.
//
// A history is a sequence of builds and source edits over one shared
// GOCACHE + GARBLE_CACHE. After every build the binary must equal the isolated
// reference of that (configuration, source) — built alone on a fresh copy of
// the same std template (a configuration that fails from cold caches must fail
// warm too); an immediately repeated identical build must start no compile or
// asm step (the simulator sees every toolexec child, so this is observed, not
// inferred).

func init() { Registry["C06"] = func() Check { return &c06{} } }

type c06 struct{}

func (c06) ID() string    { return "C06" }
func (c06) Level() string { return "exploration" }
func (c06) Rule() string {
	return "case = history of 2-6 operations over shared caches: build(config) with config drawn from a pool {default, -tiny, -literals, -seed=A, -seed=B, GOGARBLE subset, controlflow, -tags t, -ldflags=-X main.version=v1|v2} and edit(package, kind in {body, comment, blank, exported, newfile}) / revert. Fixed part: every ordered pair of configurations that differ in exactly one input, and the edit shapes that change a package's plain build but not its garbled output or vice versa; seeded part: random histories. Oracle per build: exit status and sha256 = isolated reference of (config, source) (a cold build that fails must fail warm too); an immediately repeated build of the same config and source runs 0 compile/asm children. Non-trivial = the history has at least two builds whose (config, source) differ; distinct = distinct operation sequences."
}
func (c06) Assumptions() []string {
	return []string{
		"the reference is garble-sim run alone on a fresh copy of the same multi-configuration std template (no user package in it)",
		"fault-free by definition: faults belong to C07/C18",
		"runtime randomness held fixed (VERIF_RTSEED=1)",
	}
}

const seedA = "-seed=QUJDREVGR0hJSktM"
const seedB = "-seed=MTIzNDU2Nzg5MDEy"

// stdCfgs are the configurations that re-key std; build-flag variants ride on top.
var c06Std = map[string]world.Config{
	"default":  {Name: "default"},
	"tiny":     {Name: "tiny", Flags: []string{"-tiny"}},
	"literals": {Name: "literals", Flags: []string{"-literals"}},
	"seedA":    {Name: "seedA", Flags: []string{seedA}},
	"seedB":    {Name: "seedB", Flags: []string{seedB}},
	"gogarble": {Name: "gogarble", Env: map[string]string{"GOGARBLE": "example.test/p1/leaf,example.test/p1/mid1,example.test/p3/lib,example.test/p2/asmpkg,example.test/dummy"}},
	"ctrlflow": {Name: "ctrlflow", Env: map[string]string{"GARBLE_EXPERIMENTAL_CONTROLFLOW": "1"}},
	"lit-seedA": {Name: "lit-seedA", Flags: []string{"-literals", seedA}},
}

// c06Config resolves a config name like "literals+X1" or "default+tags".
func c06Config(name string) (world.Config, string) {
	base, mod, _ := strings.Cut(name, "+")
	cfg := c06Std[base]
	cfg.Name = name
	switch mod {
	case "X1":
		cfg.BuildFlags = []string{"-ldflags=-X=main.version=v1"}
	case "X2":
		cfg.BuildFlags = []string{"-ldflags=-X=main.version=v2"}
	case "tags":
		cfg.BuildFlags = []string{"-tags=verif_t"}
	}
	return cfg, base
}

func c06Pool(tier string) []string {
	// One multi-configuration std template per tier is shared by C03, C06 and C08.
	if tier == "thorough" {
		return []string{"default", "tiny", "literals", "seedA", "seedB", "gogarble", "ctrlflow", "lit-seedA"}
	}
	return []string{"default", "tiny", "literals", "seedA", "ctrlflow", "gogarble", "lit-seedA"}
}

func c06TmplCfgs(tier string) []world.Config {
	var out []world.Config
	for _, n := range c06Pool(tier) {
		out = append(out, c06Std[n])
	}
	return out
}

func (c06) Prepare(e *Env) error {
	_, err := e.Template(c06TmplCfgs(e.Tier)...)
	return err
}

type c06Op struct {
	Build string `json:"build,omitempty"` // config name
	Edit  *Edit  `json:"edit,omitempty"`
	Undo  bool   `json:"undo,omitempty"`
	Again bool   `json:"again,omitempty"` // repeat the previous build unchanged
}

type c06Params struct {
	Prog string  `json:"prog"`
	Tier string  `json:"tier"` // which template pool
	Ops  []c06Op `json:"ops"`
	P    int     `json:"p"`
}

var c06Edits = []Edit{
	{Pkg: "leaf", Kind: "body", N: 1},
	{Pkg: "leaf", Kind: "comment", N: 2},
	{Pkg: "mid1", Kind: "blank", N: 3},
	{Pkg: "mid2", Kind: "exported", N: 4},
	{Pkg: "top", Kind: "newfile", N: 5},
	{Pkg: ".", Kind: "body", N: 6},
	{Pkg: "leaf", Kind: "blank", N: 7},
	{Pkg: "conf", Kind: "freecomment", N: 8}, // call-free package: its obfuscated build does not change, its plain one does
}

func (c c06) Generate(e *Env) ([]*Case, error) {
	rng := rand.New(rand.NewSource(e.Seed))
	thorough := e.Tier == "thorough"
	var cases []*Case
	add := func(ops ...c06Op) {
		p := c06Params{Prog: "p1", Tier: e.Tier, Ops: ops, P: 1}
		if rng.Intn(4) == 0 {
			p.P = 4
		}
		cases = append(cases, &Case{Property: "C06", Kind: "history", Seed: e.Seed, Params: mustJSON(p)})
	}
	b := func(cfg string) c06Op { return c06Op{Build: cfg} }
	ed := func(i int) c06Op { return c06Op{Edit: &c06Edits[i]} }
	again := c06Op{Again: true}
	pool := c06Pool(e.Tier)
	// Fixed: ordered pairs of configurations one input apart, second result judged against its cold reference.
	pairs := [][2]string{
		{"default", "tiny"}, {"tiny", "default"},
		{"default", "literals"}, {"literals", "default"},
		{"default", "seedA"}, {"seedA", "default"},
		{"literals", "literals+X1"}, {"literals+X1", "literals"},
		{"literals+X1", "literals+X2"},
		{"default", "default+X1"},
		{"default", "default+tags"},
		{"default", "ctrlflow"}, {"ctrlflow", "default"},
		{"default", "gogarble"}, {"gogarble", "default"},
	}
	if thorough {
		pairs = append(pairs, [][2]string{
			{"default+X1", "default+X2"}, {"seedA", "seedA+X1"},
			{"seedA", "seedB"}, {"seedB", "seedA"}, {"default", "gogarble"}, {"gogarble", "default"},
			{"default", "ctrlflow"}, {"ctrlflow", "default"}, {"literals", "lit-seedA"}, {"lit-seedA", "seedA"},
			{"tiny", "literals"}, {"gogarble", "tiny"}, {"lit-seedA", "lit-seedA+X1"}, {"tiny", "tiny+X1"},
		}...)
	}
	for _, pr := range pairs {
		add(b(pr[0]), b(pr[1]), again)
	}
	// Fixed: edits that change the plain build but not the garbled output or vice versa (seed-cache shape).
	add(b("seedA"), ed(2), b("seedA"), again)                // blank lines in a dependency under -seed
	add(b("tiny"), ed(6), b("tiny"), again)                  // blank line under -tiny (positions dropped)
	add(b("default"), ed(1), b("default"), again)            // comment only
	add(b("default"), ed(0), b("default"), c06Op{Undo: true}, b("default")) // edit, build, revert, build
	add(b("literals"), ed(3), b("literals"), ed(4), b("default"))
	// A dependency whose plain build changes (line numbers) while its obfuscated
	// build stays byte-identical: dependants keep their compiled objects although
	// their garble action IDs change; with a fixed seed nothing may depend on those.
	add(b("lit-seedA"), ed(7), b("lit-seedA"), again)
	add(b("seedA"), ed(7), b("seedA"), again)
	add(b("tiny"), ed(7), b("tiny"))
	// Seeded histories.
	n := 6
	if thorough {
		n = 130
	}
	mods := []string{"", "", "", "+X1", "+X2", "+tags"}
	for i := 0; i < n; i++ {
		var ops []c06Op
		l := 3 + rng.Intn(4)
		var applied []int // indexes into c06Edits currently applied (an edit is applied at most once)
		builds := 0
		for len(ops) < l || builds < 2 {
			switch r := rng.Intn(10); {
			case r < 6:
				ops = append(ops, b(pool[rng.Intn(len(pool))]+mods[rng.Intn(len(mods))]))
				builds++
			case r < 8 && len(applied) < 3:
				k := rng.Intn(len(c06Edits))
				dup := false
				for _, a := range applied {
					if a == k {
						dup = true
					}
				}
				if !dup {
					ops = append(ops, ed(k))
					applied = append(applied, k)
				}
			case r < 9 && len(applied) > 0:
				ops = append(ops, c06Op{Undo: true})
				applied = applied[:len(applied)-1]
			case builds > 0:
				ops = append(ops, again)
			}
			if len(ops) > 8 {
				break
			}
		}
		add(ops...)
	}
	if thorough {
		// From empty caches (three fully cold-ish builds, outside the gate).
		cases = append(cases, &Case{Property: "C06", Kind: "coldhistory", Seed: e.Seed, Params: mustJSON(c06Params{Prog: "p4", Tier: e.Tier, P: 16,
			Ops: []c06Op{{Build: "ctrlflow"}, {Edit: &Edit{Pkg: "work", Kind: "comment", N: 1}}, {Build: "ctrlflow"}}})})
		cases = append(cases, &Case{Property: "C06", Kind: "coldhistory", Seed: e.Seed, Params: mustJSON(c06Params{Prog: "p1", Tier: e.Tier, P: 16,
			Ops: []c06Op{{Build: "literals"}, {Edit: &Edit{Pkg: "leaf", Kind: "comment", N: 1}}, {Build: "literals"}}})})
	}
	return cases, nil
}

// runColdHistory: from EMPTY caches, build, edit, build — compared with a fully
// cold build of the edited source. Used for configurations whose builds only
// succeed when std is compiled in the same go invocation (trash blocks), where
// the template-based reference fails as well and would hide the difference.
func (c c06) runColdHistory(e *Env, cs *Case, p c06Params) (*Outcome, error) {
	o := &Outcome{Faults: map[string]int{}, Probes: map[string]int{}, Traces: map[string][]engine.Step{}}
	o.NonTrivial = true
	o.Fingerprint = string(cs.Params)
	cfg, _ := c06Config(p.Ops[0].Build)
	ed := *p.Ops[1].Edit
	build := func(w *world.World, src string) (string, string, int) {
		out := filepath.Join(w.Out, "bin")
		_, se, code := w.RunPlain(src, cfg, "build", "-o", out, ".")
		o.SimRuns++
		return world.HashFile(out), se, code
	}
	w, err := world.New(e.Bin, "c06cold")
	if err != nil {
		return nil, err
	}
	defer w.Close()
	src, err := PrepareSource(w, p.Prog, p.Prog, nil)
	if err != nil {
		return nil, err
	}
	if _, se, code := build(w, src); code != 0 {
		return nil, fmt.Errorf("c06: fully cold build of %s under %s failed: %s", p.Prog, cfg.Name, shortErr(se))
	}
	if err := ApplyEdit(src, ed); err != nil {
		return nil, err
	}
	sha2, se2, code2 := build(w, src)
	w2, err := world.New(e.Bin, "c06cold")
	if err != nil {
		return nil, err
	}
	defer w2.Close()
	src2, err := PrepareSource(w2, p.Prog, p.Prog, []Edit{ed})
	if err != nil {
		return nil, err
	}
	shaRef, seRef, codeRef := build(w2, src2)
	o.Sample = map[string]any{"ops": p.Ops, "prog": p.Prog, "warm_exit": code2, "cold_exit": codeRef}
	key := p.Prog + "/" + cfg.Name + "-after-cold-" + cfg.Name + "+edit:" + ed.Pkg + ":" + ed.Kind
	switch {
	case codeRef != 0 && code2 != 0:
		o.Probes["config-does-not-build-cold:"+cfg.Name]++
	case codeRef != 0:
		o.Violation = &Violation{Class: "built-although-cold-build-fails", Key: "built-although-cold-build-fails/" + key, Detail: shortErr(seRef)}
	case code2 != 0:
		o.Violation = &Violation{Class: "build-failed", Key: "build-failed/" + key,
			Detail: fmt.Sprintf("history from empty caches: build(%s); edit(%s,%s); build(%s): the second build exits %d although a fully cold build of the same source succeeds:\n%s", cfg.Name, ed.Pkg, ed.Kind, cfg.Name, code2, shortErr(se2))}
	case sha2 != shaRef:
		o.Violation = &Violation{Class: "stale-binary", Key: "stale-binary/" + key, Detail: fmt.Sprintf("second build %.16s, fully cold build of the same source %.16s", sha2, shaRef)}
	}
	return o, nil
}

func (c c06) Run(e *Env, cs *Case) (*Outcome, error) {
	var p c06Params
	if err := json.Unmarshal(cs.Params, &p); err != nil {
		return nil, err
	}
	if cs.Kind == "coldhistory" {
		return c.runColdHistory(e, cs, p)
	}
	tcfgs := c06TmplCfgs(p.Tier)
	tmpl, err := e.Template(tcfgs...)
	if err != nil {
		return nil, err
	}
	w, err := world.New(e.Bin, "c06")
	if err != nil {
		return nil, err
	}
	defer w.Close()
	if err := w.Load(tmpl); err != nil {
		return nil, err
	}
	src, err := PrepareSource(w, p.Prog, p.Prog, nil)
	if err != nil {
		return nil, err
	}
	o := &Outcome{Faults: map[string]int{}, Probes: map[string]int{}, Traces: map[string][]engine.Step{}}
	var edits []Edit
	last := ""
	states := map[string]bool{}
	out := filepath.Join(w.Out, "bin")
	var hist []string
	resetSource := func() error {
		// Rebuild the tree from the corpus plus the edit list (revert = drop the last edit).
		if err := removeTree(src); err != nil {
			return err
		}
		_, err := PrepareSource(w, p.Prog, p.Prog, edits)
		return err
	}
	viol := func(class, key, detail string) (*Outcome, error) {
		o.Violation = &Violation{Class: class, Key: class + "/" + key, Detail: "history: " + strings.Join(hist, " ; ") + "\n" + detail}
		c.finish(o, cs, p, states)
		return o, nil
	}
	lastState := "" // configuration|source of the previous successful build
	for i, op := range p.Ops {
		switch {
		case op.Edit != nil:
			edits = append(edits, *op.Edit)
			if err := ApplyEdit(src, *op.Edit); err != nil {
				return nil, err
			}
			hist = append(hist, fmt.Sprintf("edit(%s,%s)", op.Edit.Pkg, op.Edit.Kind))
			continue
		case op.Undo:
			if len(edits) == 0 {
				continue
			}
			edits = edits[:len(edits)-1]
			if err := resetSource(); err != nil {
				return nil, err
			}
			hist = append(hist, "revert")
			continue
		}
		cfgName := op.Build
		if op.Again {
			if last == "" {
				continue
			}
			cfgName = last
		}
		cfg, base := c06Config(cfgName)
		found := false
		for _, t := range tcfgs {
			if t.Name == base {
				found = true
			}
		}
		if !found {
			continue // config not in this tier's pool
		}
		hist = append(hist, "build("+cfgName+")")
		label := fmt.Sprintf("build%d", i)
		cl := w.Client("A", src, cfg, "build", fmt.Sprintf("-p=%d", p.P), "-o", out, ".")
		s, err := runSim(w, []*engine.Client{cl}, SchedSpec{Kind: "random", Seed: cs.Seed + int64(i)}.Policy(), p.P <= 1, cs.Traces[label], nil)
		if err != nil {
			return nil, err
		}
		o.SimRuns++
		o.Steps += len(s.Steps)
		o.Choice += s.Stats.ChoicePoints
		o.Traces[label] = s.Steps
		prev := last
		last = cfgName
		states[cfgName+"|"+editsKey(edits)] = true
		key := fmt.Sprintf("%s-after-%s", cfgName, prev)
		if op.Again {
			key = cfgName + "-again"
		}
		if len(edits) > 0 {
			key += fmt.Sprintf("+edits:%d", len(edits))
		}
		ref, err := e.Reference(RefSpec{Prog: p.Prog, Edits: edits, Cfg: cfg, TmplCfgs: tcfgs})
		if err != nil {
			return nil, err
		}
		if !ref.BuildOK {
			// The configuration does not build from cold caches either (e.g. control
			// flow obfuscation rejecting a function): not a staleness matter. The
			// property compares with the cold build, which here is a failure too.
			o.Probes["config-does-not-build-cold:"+cfgName]++
			if cl.ExitCode == 0 {
				return viol("built-although-cold-build-fails", key, fmt.Sprintf("build(%s) succeeded over the shared caches but fails from cold caches: %s", cfgName, shortErr(ref.Stderr)))
			}
			last = prev
			continue
		}
		if cl.ExitCode != 0 {
			return viol("build-failed", key, fmt.Sprintf("build %s exited %d although a cold build succeeds: %s", cfgName, cl.ExitCode, shortErr(cl.Stderr.String())))
		}
		if got := world.HashFile(out); got != ref.Sha {
			so, _ := RunBinary(out)
			return viol("stale-binary", key, fmt.Sprintf("binary of build(%s) is %s, a cold build of the same configuration and source gives %s\nprogram prints:\n%s\ncold build prints:\n%s", cfgName, got[:16], ref.Sha[:16], firstLines(so, 10), firstLines(ref.Stdout, 10)))
		}
		plain, err := e.Plain(p.Prog, edits, cfg.BuildFlags, "")
		if err != nil {
			return nil, err
		}
		if ref.Stdout != plain.Stdout || ref.RunExit != plain.RunExit {
			// The cold build of this configuration itself behaves differently from
			// the regular build (met with GOGARBLE subsets: a package left
			// unobfuscated reflects on types of an obfuscated one). That is C01/C14
			// matter, not staleness; C06 compares with the cold build only.
			o.Probes["cold-build-differs-from-plain:"+cfgName]++
		}
		unchanged := op.Again && lastState == cfgName+"|"+editsKey(edits)
		lastState = cfgName + "|" + editsKey(edits)
		if unchanged {
			// Only a rebuild with the very same configuration AND source is a no-op.
			o.Probes["repeat-build-checked"]++
			if n := s.Stats.CompileProcs + s.Stats.AsmProcs; n > 0 {
				return viol("rebuild-recompiled", key, fmt.Sprintf("an unchanged rebuild of %s ran %d compile/asm steps", cfgName, n))
			}
		} else if s.Stats.CompileProcs == 0 {
			o.Probes["build-fully-cached"]++
		}
	}
	c.finish(o, cs, p, states)
	return o, nil
}

func (c c06) finish(o *Outcome, cs *Case, p c06Params, states map[string]bool) {
	o.NonTrivial = len(states) >= 2
	o.Fingerprint = string(mustJSON(p.Ops))
	o.Sample = map[string]any{"ops": p.Ops, "p": p.P, "distinct_config_source_states": len(states)}
}

func (c c06) Shrink(cs *Case) []*Case {
	var p c06Params
	if json.Unmarshal(cs.Params, &p) != nil {
		return nil
	}
	var out []*Case
	if len(p.Ops) <= 2 {
		return nil
	}
	for i := range p.Ops {
		q := p
		q.Ops = append(append([]c06Op{}, p.Ops[:i]...), p.Ops[i+1:]...)
		q.P = 1
		nc := *cs
		nc.Params = mustJSON(q)
		nc.Traces = nil
		out = append(out, &nc)
	}
	return out
}
