package leaf

import "testing"

func TestDescribe(t *testing.T) {
	if got := Describe(New("a", 1)); got != "Leaf{Name,Count,inner}" {
		t.Fatalf("got %q", got)
	}
}
