// Package checks holds the per-property checks and the runner they share:
// case generation, parallel execution, known-findings matching, minimisation,
// replay files and evidence.
package checks

import (
	"crypto/sha256"
	"encoding/hex"
	"encoding/json"
	"fmt"
	"os"
	"os/exec"
	"path/filepath"
	"sort"
	"strings"
	"sync"
	"time"

	"verif.local/sim/engine"
	"verif.local/sim/simbuild"
	"verif.local/sim/world"
)

// Edit is one source edit applied on top of a corpus program.
type Edit struct {
	Pkg  string `json:"pkg"`  // directory relative to the module root ("." for main)
	Kind string `json:"kind"` // body | comment | blank | newfile | exported
	N    int    `json:"n"`
}

// Case is one generated scenario; it is also the replay file format.
type Case struct {
	Property string                   `json:"property"`
	Kind     string                   `json:"kind"`
	Seed     int64                    `json:"seed"`
	Params   json.RawMessage          `json:"params"`
	Traces   map[string][]engine.Step `json:"traces,omitempty"` // enforced on replay when present
	Expect   string                   `json:"expect,omitempty"`
	Detail   string                   `json:"detail,omitempty"`
}

// Violation describes a property failure.
type Violation struct {
	Class  string `json:"class"`  // stable, coarse: what oracle failed
	Key    string `json:"key"`    // identifies the specific input/site/history (known-findings key)
	Detail string `json:"detail"` // human readable
}

// Outcome is the result of running one case.
type Outcome struct {
	Violation   *Violation
	More        []*Violation // further, independently keyed violations of the same case
	NonTrivial  bool
	Fingerprint string // distinctness key
	Steps       int
	Choice      int
	Faults      map[string]int
	Probes      map[string]int // rare-condition probes hit
	Traces      map[string][]engine.Step
	Sample      any
	SimRuns     int
	SchedHash   string
}

// Check is one property check.
type Check interface {
	ID() string
	Level() string
	Prepare(e *Env) error
	Generate(e *Env) ([]*Case, error)
	Run(e *Env, c *Case) (*Outcome, error)
	// Shrink proposes simpler variants of a failing case (may return nil).
	Shrink(c *Case) []*Case
	Rule() string
	Assumptions() []string
}

// Env is shared by all cases of one check run.
type Env struct {
	Bin, Key string
	Tier     string
	Seed     int64
	Workers  int
	Repo     string
	ClockSites, GlobalRand []string // from the instrumenter report

	mu      sync.Mutex
	closers []func()
	tmpl    map[string]*world.Template
	memo  map[string]*memoEntry
	Extra map[string]any // check-specific evidence
}

type memoEntry struct {
	once sync.Once
	val  any
	err  error
}

// Memo computes f once per key for the lifetime of the Env.
func (e *Env) Memo(key string, f func() (any, error)) (any, error) {
	e.mu.Lock()
	if e.memo == nil {
		e.memo = map[string]*memoEntry{}
	}
	m := e.memo[key]
	if m == nil {
		m = &memoEntry{}
		e.memo[key] = m
	}
	e.mu.Unlock()
	m.once.Do(func() { m.val, m.err = f() })
	return m.val, m.err
}

func (e *Env) Template(cfgs ...world.Config) (*world.Template, error) {
	k := ""
	for _, c := range cfgs {
		k += c.Key()
	}
	v, err := e.Memo("tmpl:"+k, func() (any, error) { return world.EnsureTemplate(e.Bin, e.Key, cfgs) })
	if err != nil {
		return nil, err
	}
	return v.(*world.Template), nil
}

// OnClose registers a cleanup to run when the check run ends.
func (e *Env) OnClose(f func()) {
	e.mu.Lock()
	e.closers = append(e.closers, f)
	e.mu.Unlock()
}

// Close runs the registered cleanups.
func (e *Env) Close() {
	e.mu.Lock()
	cs := e.closers
	e.closers = nil
	e.mu.Unlock()
	for _, f := range cs {
		f()
	}
}

func (e *Env) SetExtra(k string, v any) {
	e.mu.Lock()
	if e.Extra == nil {
		e.Extra = map[string]any{}
	}
	e.Extra[k] = v
	e.mu.Unlock()
}

// ---- sources and edits ----

func pkgNameOf(dir string) (file string, name string, err error) {
	ents, err := os.ReadDir(dir)
	if err != nil {
		return "", "", err
	}
	for _, e := range ents {
		if e.IsDir() || !strings.HasSuffix(e.Name(), ".go") || strings.HasSuffix(e.Name(), "_test.go") {
			continue
		}
		b, err := os.ReadFile(filepath.Join(dir, e.Name()))
		if err != nil {
			return "", "", err
		}
		for _, l := range strings.Split(string(b), "\n") {
			if strings.HasPrefix(l, "package ") {
				return filepath.Join(dir, e.Name()), strings.Fields(l)[1], nil
			}
		}
	}
	return "", "", fmt.Errorf("no go file in %s", dir)
}

// ApplyEdit applies one edit to the source tree at root.
func ApplyEdit(root string, ed Edit) error {
	dir := filepath.Join(root, ed.Pkg)
	file, name, err := pkgNameOf(dir)
	if err != nil {
		return err
	}
	b, err := os.ReadFile(file)
	if err != nil {
		return err
	}
	s := string(b)
	switch ed.Kind {
	case "body":
		s += fmt.Sprintf("\nfunc verifEdit%d() int { return %d }\n", ed.N, ed.N)
	case "comment":
		s += fmt.Sprintf("\n// verif edit %d\n", ed.N)
	case "blank":
		i := strings.Index(s, "\n")
		s = s[:i+1] + strings.Repeat("\n", 1+ed.N%3) + s[i+1:]
	case "freecomment":
		// A free-standing comment block right below the package clause: shifts
		// every line number without touching any declaration or doc comment.
		i := strings.Index(s, "\npackage ")
		if strings.HasPrefix(s, "package ") {
			i = -1
		}
		j := strings.Index(s[i+1:], "\n") + i + 1
		s = s[:j+1] + fmt.Sprintf("\n// free-standing comment %d\n// (line shift only)\n", ed.N) + s[j+1:]
	case "exported":
		s += fmt.Sprintf("\nfunc VerifExported%d() int { return %d }\n", ed.N, ed.N)
	case "newfile":
		nf := filepath.Join(dir, fmt.Sprintf("zz_edit%d.go", ed.N))
		return os.WriteFile(nf, []byte(fmt.Sprintf("package %s\n\nfunc verifNewFile%d() string { return \"nf%d\" }\n", name, ed.N, ed.N)), 0o644)
	default:
		return fmt.Errorf("unknown edit kind %q", ed.Kind)
	}
	return os.WriteFile(file, []byte(s), 0o644)
}

// PrepareSource copies corpus program prog into w under dirName and applies edits.
func PrepareSource(w *world.World, prog, dirName string, edits []Edit) (string, error) {
	src, err := w.CopyCorpus(prog, dirName)
	if err != nil {
		return "", err
	}
	for _, ed := range edits {
		if err := ApplyEdit(src, ed); err != nil {
			return "", err
		}
	}
	return src, nil
}

func removeTree(dir string) error { return os.RemoveAll(dir) }

func editsKey(edits []Edit) string {
	b, _ := json.Marshal(edits)
	return string(b)
}

// ---- running binaries ----

// RunBinary runs a produced program and returns stdout, exit code.
func RunBinary(path string, args ...string) (string, int) {
	cmd := exec.Command(path, args...)
	cmd.Env = []string{"PATH=/usr/bin:/bin", "HOME=/nonexistent"}
	var so strings.Builder
	cmd.Stdout = &so
	done := make(chan error, 1)
	if err := cmd.Start(); err != nil {
		return "start error: " + err.Error(), -3
	}
	go func() { done <- cmd.Wait() }()
	select {
	case err := <-done:
		code := 0
		if err != nil {
			if ee, ok := err.(*exec.ExitError); ok {
				code = ee.ExitCode()
			} else {
				code = -2
			}
		}
		return so.String(), code
	case <-time.After(20 * time.Second):
		cmd.Process.Kill()
		<-done
		return so.String() + "\n<timeout>", -4
	}
}

// ---- references ----

// Ref is what an isolated, fault-free build of (cfg, source) produces.
type Ref struct {
	Sha      string `json:"sha"`
	BuildOK  bool   `json:"build_ok"`
	Stderr   string `json:"stderr,omitempty"`
	Stdout   string `json:"stdout"`
	RunExit  int    `json:"run_exit"`
	DebugSum string `json:"debug_sum,omitempty"`
	DebugN   int    `json:"debug_n,omitempty"`
}

type RefSpec struct {
	Prog     string       `json:"prog"`
	Edits    []Edit       `json:"edits,omitempty"`
	Cfg      world.Config `json:"cfg"`
	DebugDir bool         `json:"debugdir,omitempty"`
	Pkg      string       `json:"pkg,omitempty"` // package argument (default ".")
	RtSeed   string       `json:"rtseed"`
	TmplCfgs []world.Config `json:"-"`
}

func (e *Env) refPath(spec RefSpec) string {
	b, _ := json.Marshal(spec)
	h := sha256.Sum256(append(b, []byte(corpusHash(spec.Prog)+"|refv2")...))
	return filepath.Join(simbuild.StateDir(), "ref", e.Key, hex.EncodeToString(h[:10])+".json")
}

var corpusHashes sync.Map

func corpusHash(prog string) string {
	if v, ok := corpusHashes.Load(prog); ok {
		return v.(string)
	}
	h := world.HashTree(filepath.Join(world.CorpusRoot(), prog), nil)
	corpusHashes.Store(prog, h)
	return h
}

// DebugDirSum hashes the part of a -debugdir tree that belongs to the build:
// the files directly under source/<pkg>/ and garbled/<pkg>/ for every package
// in deps. (garble also restores cached artifacts of packages it lists but
// does not build — std packages reached only through runtime linknames — when
// the cache happens to hold them; those extras depend on cache contents and are
// not part of "the trees of the build". Their number is returned as well.)
func DebugDirSum(dir string, deps []string) (sum string, files int, extras int) {
	want := map[string]bool{}
	for _, d := range deps {
		want[d] = true
	}
	h := sha256.New()
	for _, rel := range world.ListFiles(dir) {
		parts := strings.SplitN(rel, "/", 2)
		if len(parts) != 2 || (parts[0] != "source" && parts[0] != "garbled") {
			continue // the sentinel file
		}
		pkg := filepath.Dir(parts[1])
		if !want[pkg] {
			extras++
			continue
		}
		b, _ := os.ReadFile(filepath.Join(dir, rel))
		fmt.Fprintf(h, "%s %d\n", rel, len(b))
		h.Write(b)
		files++
	}
	return hex.EncodeToString(h.Sum(nil)), files, extras
}

// Deps lists the import paths of everything a build of prog (+edits) contains.
func (e *Env) Deps(prog string, edits []Edit) ([]string, error) {
	v, err := e.Memo("deps:"+prog+editsKey(edits), func() (any, error) {
		w, err := world.New(e.Bin, "deps")
		if err != nil {
			return nil, err
		}
		defer w.Close()
		src, err := PrepareSource(w, prog, prog, edits)
		if err != nil {
			return nil, err
		}
		out, se, code := w.GoPlain(src, "list", "-deps", "-f", "{{.ImportPath}}", ".")
		if code != 0 {
			return nil, fmt.Errorf("go list -deps for %s failed: %s", prog, shortErr(se))
		}
		return strings.Fields(out), nil
	})
	if err != nil {
		return nil, err
	}
	return v.([]string), nil
}

// Reference returns (building and memoising if needed) the isolated build of spec.
func (e *Env) Reference(spec RefSpec) (*Ref, error) {
	if spec.RtSeed == "" {
		spec.RtSeed = "1"
	}
	path := e.refPath(spec)
	v, err := e.Memo("ref:"+path, func() (any, error) {
		if b, err := os.ReadFile(path); err == nil {
			r := &Ref{}
			if json.Unmarshal(b, r) == nil {
				return r, nil
			}
		}
		tc := spec.TmplCfgs
		if len(tc) == 0 {
			tc = []world.Config{spec.Cfg}
		}
		tmpl, err := e.Template(tc...)
		if err != nil {
			return nil, err
		}
		w, err := world.New(e.Bin, "ref")
		if err != nil {
			return nil, err
		}
		defer w.Close()
		w.RtSeed = spec.RtSeed
		if err := w.Load(tmpl); err != nil {
			return nil, err
		}
		src, err := PrepareSource(w, spec.Prog, spec.Prog, spec.Edits)
		if err != nil {
			return nil, err
		}
		cfg := spec.Cfg // when spec.DebugDir is set, cfg carries -debugdir=$OUT/debugdir
		dd := filepath.Join(w.Out, "debugdir")
		out := filepath.Join(w.Out, "bin")
		pkg := spec.Pkg
		if pkg == "" {
			pkg = "."
		}
		_, se, code := w.RunPlain(src, cfg, "build", "-o", out, pkg)
		r := &Ref{BuildOK: code == 0, Stderr: se}
		if code == 0 {
			r.Sha = world.HashFile(out)
			r.Stdout, r.RunExit = RunBinary(out)
			if spec.DebugDir {
				deps, err := e.Deps(spec.Prog, spec.Edits)
				if err != nil {
					return nil, err
				}
				r.DebugSum, r.DebugN, _ = DebugDirSum(dd, deps)
			}
		}
		os.MkdirAll(filepath.Dir(path), 0o755)
		b, _ := json.MarshalIndent(r, "", " ")
		os.WriteFile(path, b, 0o644)
		return r, nil
	})
	if err != nil {
		return nil, err
	}
	return v.(*Ref), nil
}

// PlainRef is the behaviour of the regular (go build -trimpath) program.
type PlainRef struct {
	Stdout  string
	RunExit int
}

func (e *Env) Plain(prog string, edits []Edit, buildFlags []string, pkg string) (*PlainRef, error) {
	if pkg == "" {
		pkg = "."
	}
	key := "plain:" + prog + editsKey(edits) + strings.Join(buildFlags, " ") + pkg
	v, err := e.Memo(key, func() (any, error) {
		w, err := world.New(e.Bin, "plain")
		if err != nil {
			return nil, err
		}
		defer w.Close()
		// A warm GOCACHE makes this a sub-second build.
		shared, err := e.Memo("plainshared-init", func() (any, error) {
			base, err := world.EnsureBase()
			if err != nil {
				return nil, err
			}
			dst := base + "-plainshared"
			if _, err := os.Stat(dst); err != nil {
				tmp := fmt.Sprintf("%s.tmp%d", dst, os.Getpid())
				os.RemoveAll(tmp)
				if err := world.CpA(base, tmp); err != nil {
					return nil, err
				}
				if err := os.Rename(tmp, dst); err != nil {
					os.RemoveAll(tmp)
				}
			}
			return dst, nil
		})
		if err != nil {
			return nil, err
		}
		w.GoCache = shared.(string)
		src, err := PrepareSource(w, prog, prog, edits)
		if err != nil {
			return nil, err
		}
		out := filepath.Join(w.Out, "plain")
		args := append([]string{"build", "-trimpath"}, buildFlags...)
		args = append(args, "-o", out, pkg)
		if _, se, code := w.GoPlain(src, args...); code != 0 {
			return nil, fmt.Errorf("plain build of %s failed: %s", prog, se)
		}
		so, rc := RunBinary(out)
		return &PlainRef{Stdout: so, RunExit: rc}, nil
	})
	if err != nil {
		return nil, err
	}
	return v.(*PlainRef), nil
}

// ---- helpers ----

func schedHash(steps []engine.Step) string {
	h := sha256.New()
	for _, s := range steps {
		if s.Enabled >= 2 || s.Act.Kind != "go" {
			fmt.Fprintf(h, "%s/%d/%s/%d;", s.Proc, s.Seq, s.Act.Kind, s.Act.N)
		}
	}
	return hex.EncodeToString(h.Sum(nil))[:12]
}

func mustJSON(v any) json.RawMessage {
	b, err := json.Marshal(v)
	if err != nil {
		panic(err)
	}
	return b
}

func sortedKeys[V any](m map[string]V) []string {
	ks := make([]string, 0, len(m))
	for k := range m {
		ks = append(ks, k)
	}
	sort.Strings(ks)
	return ks
}

func firstLines(s string, n int) string {
	l := strings.Split(s, "\n")
	if len(l) > n {
		l = append(l[:n], "...")
	}
	return strings.Join(l, "\n")
}
