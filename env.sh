# Sourced by every script: offline Go environment on the toolchain copy.
export VERIF_STATE="${VERIF_STATE:-/root/.cache/verif-garble}"
export GOFLAGS=-mod=mod GOPROXY=off GOSUMDB=off GOTOOLCHAIN=local GONOSUMDB='*' GONOSUMCHECK=1 GOTELEMETRY=off
export PATH="$VERIF_STATE/goroot/bin:$PATH"
export GOROOT="$VERIF_STATE/goroot"
