package checks

import (
	"encoding/json"
	"fmt"
	"math/rand"
	"os"
	"path/filepath"
	"sort"
	"strings"

	"verif.local/sim/engine"
	"verif.local/sim/world"
)

// C07 — missing or damaged cache entries are recomputed, never trusted.
//
// After a successful build B0 the durable state (GARBLE_CACHE/build entries,
// GARBLE_CACHE/tool files, the part of GOCACHE garble builds added) is damaged
// (deleted / emptied / truncated), a dependant is edited so that the damaged
// packages stay GOCACHE hits but their garble entries are needed again, and
// the build is repeated under the simulator. Oracle: exit 0, binary equals the
// isolated reference of the edited source, program output equals the plain
// build, every cache hit returns bytes that were put under that key, and a
// further fault-free rebuild is a no-op.

func init() { Registry["C07"] = func() Check { return &c07{} } }

type c07 struct{}

func (c07) ID() string    { return "C07" }
func (c07) Level() string { return "fault_enumeration" }
func (c07) Rule() string {
	return "case = (program, config, debugdir?, set of durable cache files each deleted/emptied/truncated at 1, half or size-1 bytes and/or whole cache directories removed, optional second state fault applied at a parked event of the rebuild, source edit, -p, schedule). Enumerated: every single user-package entry file (index and data) x 5 modes, every patched-linker cache file x modes, all subsets of the index entries on the import chain leaf->mid->top->main, all combinations of whole-directory removals; seeded samples of std entries and of GOCACHE files. A case is non-trivial when at least one file was actually damaged or removed; distinct = distinct (program, config, fault set, edit, mid-fault, -p) tuples."
}
func (c07) Assumptions() []string {
	return []string{
		"the reference build is garble-sim itself run alone on a fresh template (a defect that corrupts every build identically is invisible here)",
		"runtime randomness is held fixed (VERIF_RTSEED=1) so that C03-type nondeterminism does not masquerade as a cache problem",
		"only sizes change: same-size content corruption is outside the property",
		"std entries and GOCACHE files are sampled, not enumerated",
	}
}

var cfgDefault = world.Config{Name: "default"}
var cfgDebugDir = world.Config{Name: "debugdir", Flags: []string{"-debugdir=$OUT/debugdir"}}
var cfgLiterals = world.Config{Name: "literals", Flags: []string{"-literals"}}

func (c07) Prepare(e *Env) error {
	if _, err := e.Template(cfgDefault); err != nil {
		return err
	}
	_, err := e.Template(cfgDebugDir)
	return err
}

type c07Fault struct {
	Role string `json:"role"`
	Mode string `json:"mode"`
}

type c07Params struct {
	Prog     string     `json:"prog"`
	DebugDir bool       `json:"debugdir,omitempty"`
	Faults   []c07Fault `json:"faults,omitempty"`
	Dirs     []string   `json:"dirs,omitempty"` // garble/build garble/tool garble gocache-new gocache
	Edit     *Edit      `json:"edit,omitempty"`
	Edit2    *Edit      `json:"edit2,omitempty"` // second edit: two siblings recompile concurrently
	P        int        `json:"p"`
	Sched    SchedSpec  `json:"sched"`
	MidStep  int        `json:"mid_step,omitempty"` // apply MidFault when this many steps have been released
	MidFault *c07Fault  `json:"mid_fault,omitempty"`
	Ungated  bool       `json:"ungated,omitempty"` // run outside the gate (full -a rebuilds)
	Noop     bool       `json:"noop,omitempty"`    // also check that a further rebuild is a no-op
}

// snapshot is the durable state after B0 plus the role -> file map.
type c07Snap struct {
	Dir    string            // holds gocache/ garblecache/ debugdir/
	Roles  map[string]string // role -> path relative to Dir
	Puts   map[string]map[string]bool
	Steps  int
	NewGC  []string
	StdEnt []string
}

func c07Cfg(dd bool) world.Config {
	if dd {
		return cfgDebugDir
	}
	return cfgDefault
}

func kindOfSite(site string) string {
	switch {
	case strings.Contains(site, "computePkgCache"):
		return "reflect"
	case strings.Contains(site, "saveGoAsmNames"):
		return "asm"
	case strings.Contains(site, "saveDebugArtifactsForPkg"):
		return "debug"
	}
	return "other"
}

func (c07) snapshot(e *Env, prog string, dd bool) (*c07Snap, error) {
	key := fmt.Sprintf("c07snap:%s:%v", prog, dd)
	v, err := e.Memo(key, func() (any, error) {
		cfg := c07Cfg(dd)
		tmpl, err := e.Template(cfg)
		if err != nil {
			return nil, err
		}
		w, err := world.New(e.Bin, "c07b0")
		if err != nil {
			return nil, err
		}
		defer w.Close()
		if err := w.Load(tmpl); err != nil {
			return nil, err
		}
		stdBefore := map[string]bool{}
		for _, f := range world.ListFiles(filepath.Join(w.GarbleCache, "build")) {
			stdBefore[f] = true
		}
		src, err := PrepareSource(w, prog, prog, nil)
		if err != nil {
			return nil, err
		}
		out := filepath.Join(w.Out, "bin")
		cl := w.Client("A", src, cfg, "build", "-p=1", "-o", out, ".")
		var s *engine.Sim
		if dd {
			// With -debugdir garble forces a full -a rebuild: run B0 outside the gate.
			_, se, code := w.RunPlain(src, cfg, "build", "-o", out, ".")
			cl.ExitCode = code
			cl.Stderr.WriteString(se)
			s = &engine.Sim{}
		} else {
			s, err = runSim(w, []*engine.Client{cl}, engine.Canonical{}, true, nil, nil)
			if err != nil {
				return nil, err
			}
		}
		if cl.ExitCode != 0 {
			return nil, fmt.Errorf("c07: B0 of %s failed: %s", prog, shortErr(cl.Stderr.String()))
		}
		ref, err := e.Reference(RefSpec{Prog: prog, Cfg: cfg, DebugDir: false})
		if err != nil {
			return nil, err
		}
		if dd {
			// The -debugdir flag is not part of the build hash: same binary.
			cfg2 := cfg
			_ = cfg2
		}
		if got := world.HashFile(out); ref.BuildOK && got != ref.Sha {
			return nil, fmt.Errorf("c07: B0 of %s (%s) differs from its isolated reference (%s vs %s): reproducibility problem, see C03", prog, cfg.Name, got[:12], ref.Sha[:12])
		}
		snap := &c07Snap{Roles: map[string]string{}, Puts: map[string]map[string]bool{}, Steps: len(s.Steps)}
		// Roles of garble cache entries written during B0, from the simulator log.
		procPkg := map[string]string{}
		for _, p := range s.Procs {
			procPkg[p.ID] = p.Pkg
		}
		build := filepath.Join(w.GarbleCache, "build")
		for _, le := range s.Log {
			if le.Msg.T != "note" || le.Msg.Op != "cache-put" {
				continue
			}
			if snap.Puts[le.Msg.Key] == nil {
				snap.Puts[le.Msg.Key] = map[string]bool{}
			}
			snap.Puts[le.Msg.Key][le.Msg.Sum] = true
			pkg := procPkg[le.Proc]
			kind := kindOfSite(le.Msg.Site)
			// index file: build/<k[:2]>/<key...>-a
			m, _ := filepath.Glob(filepath.Join(build, le.Msg.Key[:2], le.Msg.Key+"*-a"))
			if len(m) != 1 {
				continue
			}
			rel, _ := filepath.Rel(w.Root, m[0])
			role := pkg + "|" + kind
			snap.Roles[role+"|a"] = rel
			b, err := os.ReadFile(m[0])
			if err == nil {
				f := strings.Fields(string(b))
				if len(f) >= 3 {
					d := filepath.Join(build, f[2][:2], f[2]+"-d")
					if _, err := os.Stat(d); err == nil {
						rel, _ := filepath.Rel(w.Root, d)
						snap.Roles[role+"|d"] = rel
					}
				}
			}
		}
		if dd {
			// No simulator log: classify the entries B0 added by their content.
			for _, f := range world.ListFiles(build) {
				if stdBefore[f] || !strings.HasSuffix(f, "-a") {
					continue
				}
				b, err := os.ReadFile(filepath.Join(build, f))
				if err != nil {
					continue
				}
				fl := strings.Fields(string(b))
				if len(fl) < 3 {
					continue
				}
				dRel := filepath.Join(fl[2][:2], fl[2]+"-d")
				data, err := os.ReadFile(filepath.Join(build, dRel))
				if err != nil {
					continue
				}
				kind := "reflect"
				if strings.Contains(string(data), "SourceFiles") {
					kind = "debug"
				}
				name := "x"
				if i := strings.Index(string(data), ".go"); i > 0 {
					j := i
					for j > 0 && (data[j-1] == '_' || data[j-1] >= 'a' && data[j-1] <= 'z' || data[j-1] >= '0' && data[j-1] <= '9') {
						j--
					}
					name = string(data[j : i+3])
				}
				role := "example.test/" + prog + "/" + name + "|" + kind
				snap.Roles[role+"|a"] = filepath.Join("garblecache", "build", f)
				snap.Roles[role+"|d"] = filepath.Join("garblecache", "build", dRel)
			}
		}
		for _, n := range []string{"link", "link.version", "link.lock"} {
			p := filepath.Join(w.GarbleCache, "tool", n)
			if _, err := os.Stat(p); err == nil {
				rel, _ := filepath.Rel(w.Root, p)
				snap.Roles["tool|"+n] = rel
			}
		}
		i := 0
		for _, f := range world.ListFiles(build) {
			if stdBefore[f] && (strings.HasSuffix(f, "-a") || strings.HasSuffix(f, "-d")) {
				snap.Roles[fmt.Sprintf("std|%d", i)] = filepath.Join("garblecache", "build", f)
				snap.StdEnt = append(snap.StdEnt, fmt.Sprintf("std|%d", i))
				i++
			}
		}
		// Files the first build added to GARBLE_CACHE/build that no cache-put note
		// accounts for (a tree that stores entries some other way): still durable
		// state of user packages, enumerated under positional roles.
		mapped := map[string]bool{}
		for _, rel := range snap.Roles {
			mapped[rel] = true
		}
		i = 0
		for _, f := range world.ListFiles(build) {
			rel := filepath.Join("garblecache", "build", f)
			if !stdBefore[f] && !mapped[rel] && f != "trim.txt" && !strings.HasSuffix(f, "README") {
				snap.Roles[fmt.Sprintf("example.test/%s/unmapped|file|%d", prog, i)] = rel
				i++
			}
		}
		i = 0
		for _, f := range world.ListFiles(w.GoCache) {
			if !w.TmplFiles[f] && (strings.HasSuffix(f, "-a") || strings.HasSuffix(f, "-d")) {
				snap.Roles[fmt.Sprintf("gocache|%d", i)] = filepath.Join("gocache", f)
				snap.NewGC = append(snap.NewGC, fmt.Sprintf("gocache|%d", i))
				i++
			}
		}
		// Keep the caches as the snapshot.
		dir, err := os.MkdirTemp(filepath.Dir(w.Root), "verif-snap-c07-")
		if err != nil {
			return nil, err
		}
		e.OnClose(func() { os.RemoveAll(dir) })
		if err := os.Rename(w.GoCache, filepath.Join(dir, "gocache")); err != nil {
			return nil, err
		}
		if err := os.Rename(w.GarbleCache, filepath.Join(dir, "garblecache")); err != nil {
			return nil, err
		}
		snap.Dir = dir
		return snap, nil
	})
	if err != nil {
		return nil, err
	}
	return v.(*c07Snap), nil
}

func (c c07) userRoles(s *c07Snap) []string {
	var out []string
	for r := range s.Roles {
		if strings.HasPrefix(r, "example.test/") {
			out = append(out, r)
		}
	}
	sort.Strings(out)
	return out
}

var c07Modes = []string{"delete", "empty", "trunc1", "trunchalf", "truncm1"}

func (c c07) Generate(e *Env) ([]*Case, error) {
	rng := rand.New(rand.NewSource(e.Seed))
	var cases []*Case
	idx := 0
	add := func(p c07Params) {
		if p.P == 0 {
			p.P = 1
		}
		if p.Sched.Kind == "" {
			p.Sched.Kind = "canonical"
		}
		// The liveness re-run costs a whole go invocation: do it for every third case.
		p.Noop = idx%3 == 0
		idx++
		cases = append(cases, &Case{Property: "C07", Kind: "damage", Seed: e.Seed, Params: mustJSON(p)})
	}
	thorough := e.Tier == "thorough"
	pick := func(n, quick int) int { // how many of n to take
		if thorough || n < quick {
			return n
		}
		return quick
	}
	progs := []string{"p1"}
	if _, err := os.Stat(filepath.Join("/verif/corpus", "p2")); err == nil {
		progs = append(progs, "p2")
	}
	edTop := &Edit{Pkg: "top", Kind: "body", N: 1}
	edMain := &Edit{Pkg: ".", Kind: "body", N: 2}
	sched := func() SchedSpec {
		return SchedSpec{Kind: []string{"random", "sticky", "pct"}[rng.Intn(3)], Seed: rng.Int63()}
	}
	for pi, prog := range progs {
		snap, err := c.snapshot(e, prog, false)
		if err != nil {
			return nil, err
		}
		roles := c.userRoles(snap)
		editFor := func(r string) *Edit {
			if strings.HasPrefix(r, "example.test/"+prog+"/top|") || strings.HasPrefix(r, "example.test/"+prog+"|") {
				return edMain
			}
			return edTop
		}
		// Fault-free control: edit only.
		add(c07Params{Prog: prog, Edit: edTop})
		// 1. every single user-package entry file: delete + (quick: one seeded, thorough: all) truncation modes.
		for _, r := range roles {
			modes := c07Modes
			if !thorough {
				modes = []string{"delete", c07Modes[1+rng.Intn(4)]}
				if pi > 0 {
					modes = modes[rng.Intn(2):][:1]
				}
			}
			for _, m := range modes {
				add(c07Params{Prog: prog, Faults: []c07Fault{{r, m}}, Edit: editFor(r)})
			}
		}
		// 2. patched-linker cache files.
		if pi == 0 || thorough {
			for _, n := range []string{"tool|link", "tool|link.version", "tool|link.lock"} {
				if _, ok := snap.Roles[n]; !ok {
					continue
				}
				modes := c07Modes
				if !thorough && n != "tool|link" {
					modes = []string{"delete", "trunchalf"}
				}
				for _, m := range modes {
					add(c07Params{Prog: prog, Faults: []c07Fault{{n, m}}, Edit: edMain})
				}
			}
		}
		// 3. subsets (>= 2 elements) of the reflect index entries along the import chain.
		var chain []string
		for _, r := range roles {
			if strings.HasSuffix(r, "|reflect|a") {
				chain = append(chain, r)
			}
		}
		if len(chain) > 5 {
			chain = chain[:5]
		}
		var masks []int
		for mask := 1; mask < 1<<len(chain); mask++ {
			if bitsSet(mask) >= 2 {
				masks = append(masks, mask)
			}
		}
		rng.Shuffle(len(masks), func(i, j int) { masks[i], masks[j] = masks[j], masks[i] })
		for _, mask := range masks[:pick(len(masks), 6-3*pi)] {
			var fs []c07Fault
			for i, r := range chain {
				if mask&(1<<i) != 0 {
					mode := "delete"
					if rng.Intn(3) == 0 {
						mode = c07Modes[1+rng.Intn(4)]
					}
					fs = append(fs, c07Fault{r, mode})
				}
			}
			p := c07Params{Prog: prog, Faults: fs, Edit: edMain}
			if rng.Intn(3) == 0 {
				p.P = 4
				p.Sched = sched()
			}
			add(p)
		}
		// 4. whole-directory removals in every combination.
		dirs := []string{"garble/build", "garble/tool", "gocache-new"}
		var combos [][]string
		for mask := 1; mask < 1<<len(dirs); mask++ {
			var ds []string
			for i, d := range dirs {
				if mask&(1<<i) != 0 {
					ds = append(ds, d)
				}
			}
			combos = append(combos, ds)
		}
		combos = append(combos, []string{"garble"})
		rng.Shuffle(len(combos), func(i, j int) { combos[i], combos[j] = combos[j], combos[i] })
		for _, ds := range combos[:pick(len(combos), 4-2*pi)] {
			add(c07Params{Prog: prog, Dirs: ds, Edit: edTop})
			if thorough {
				add(c07Params{Prog: prog, Dirs: ds})
			}
		}
		// 4b. one entry file damaged AND the garbled part of GOCACHE lost, no edit: the
		// packages are recompiled under their unchanged garble action IDs, so every
		// writer meets a half-present entry (index without data or the reverse).
		var fam []c07Fault
		for _, r := range roles {
			for _, m := range []string{"delete", "empty", "trunchalf"} {
				fam = append(fam, c07Fault{r, m})
			}
		}
		rng.Shuffle(len(fam), func(i, j int) { fam[i], fam[j] = fam[j], fam[i] })
		nf := pick(len(fam), 5)
		if !thorough && pi > 0 {
			// prefer the assembly name-map entries of the second program
			var asm, rest []c07Fault
			for _, f := range fam {
				if strings.Contains(f.Role, "|asm|") {
					asm = append(asm, f)
				} else {
					rest = append(rest, f)
				}
			}
			fam = append(asm, rest...)
			nf = min(4, len(fam))
		}
		for _, f := range fam[:nf] {
			add(c07Params{Prog: prog, Faults: []c07Fault{f}, Dirs: []string{"gocache-new"}})
		}
		// 5. seeded samples: std entries, GOCACHE files, multi-fault sets at -p 4, mid-build faults.
		nS := 3 - pi
		if thorough {
			nS = 14
		}
		for i := 0; i < nS && len(snap.StdEnt) > 0; i++ {
			r := snap.StdEnt[rng.Intn(len(snap.StdEnt))]
			add(c07Params{Prog: prog, Faults: []c07Fault{{r, c07Modes[rng.Intn(5)]}}, Edit: edTop})
		}
		for i := 0; i < nS && len(snap.NewGC) > 0; i++ {
			r := snap.NewGC[rng.Intn(len(snap.NewGC))]
			add(c07Params{Prog: prog, Faults: []c07Fault{{r, c07Modes[rng.Intn(5)]}}, Edit: edTop})
		}
		for i := 0; i < nS+1; i++ {
			all := append(append([]string{}, roles...), "tool|link.version")
			k := 2 + rng.Intn(3)
			var fs []c07Fault
			seen := map[string]bool{}
			for j := 0; j < k; j++ {
				r := all[rng.Intn(len(all))]
				if seen[r] {
					continue
				}
				seen[r] = true
				fs = append(fs, c07Fault{r, c07Modes[rng.Intn(5)]})
			}
			add(c07Params{Prog: prog, Faults: fs, Edit: edMain, P: 4, Sched: sched()})
		}
		if prog == "p1" {
			// Two siblings (mid1, mid2) are recompiled concurrently at -p 4 while the
			// facts of their common dependency (leaf) are damaged: both recompute and
			// put the same entry.
			nC := 3
			if thorough {
				nC = 12
			}
			for i := 0; i < nC; i++ {
				r := "example.test/p1/leaf|reflect|" + []string{"a", "d"}[rng.Intn(2)]
				add(c07Params{Prog: prog, Faults: []c07Fault{{r, c07Modes[rng.Intn(5)]}},
					Edit: &Edit{Pkg: "mid1", Kind: "body", N: 3}, Edit2: &Edit{Pkg: "mid2", Kind: "body", N: 4}, P: 4, Sched: sched()})
			}
		}
		for i := 0; i < nS+1; i++ {
			// an entry vanishing while the rebuild is under way (concurrent clean/trim)
			r := roles[rng.Intn(len(roles))]
			add(c07Params{Prog: prog, Edit: edMain, MidStep: 10 + rng.Intn(snap.Steps/2), MidFault: &c07Fault{r, c07Modes[rng.Intn(5)]}})
		}
		// 6. -debugdir: any edit forces garble to rebuild everything with -a, so these
		// cases cost a full std rebuild each; they run outside the gate (real parallelism).
		if pi == 0 {
			snapD, err := c.snapshot(e, prog, true)
			if err != nil {
				return nil, err
			}
			var dbg []string
			for _, r := range c.userRoles(snapD) {
				if strings.Contains(r, "|debug|") {
					dbg = append(dbg, r)
				}
			}
			add(c07Params{Prog: prog, DebugDir: true, Ungated: true})
			n := pick(len(dbg), 2)
			rng.Shuffle(len(dbg), func(i, j int) { dbg[i], dbg[j] = dbg[j], dbg[i] })
			for _, r := range dbg[:n] {
				add(c07Params{Prog: prog, DebugDir: true, Ungated: true, Faults: []c07Fault{{r, c07Modes[rng.Intn(5)]}}})
			}
			if thorough {
				add(c07Params{Prog: prog, DebugDir: true, Ungated: true, Dirs: []string{"garble/build"}})
				add(c07Params{Prog: prog, DebugDir: true, Ungated: true, Edit: edTop})
			}
		}
	}
	e.SetExtra("exhaustive", false)
	e.SetExtra("exhaustive_note", "thorough tier is complete over single user-package entry files and linker-cache files (all 5 modes), over all >=2-element subsets of the import-chain index entries and over all combinations of whole-directory removals; the quick tier takes delete plus one seeded truncation mode per file and seeded subsets of the rest")
	return cases, nil
}

func bitsSet(m int) int {
	n := 0
	for ; m != 0; m &= m - 1 {
		n++
	}
	return n
}

func (c c07) Run(e *Env, cs *Case) (*Outcome, error) {
	var p c07Params
	if err := json.Unmarshal(cs.Params, &p); err != nil {
		return nil, err
	}
	snap, err := c.snapshot(e, p.Prog, p.DebugDir)
	if err != nil {
		return nil, err
	}
	cfg := c07Cfg(p.DebugDir)
	w, err := world.New(e.Bin, "c07")
	if err != nil {
		return nil, err
	}
	defer w.Close()
	if err := world.CpA(filepath.Join(snap.Dir, "gocache"), w.GoCache); err != nil {
		return nil, err
	}
	if err := world.CpA(filepath.Join(snap.Dir, "garblecache"), w.GarbleCache); err != nil {
		return nil, err
	}
	var edits []Edit
	if p.Edit != nil {
		edits = []Edit{*p.Edit}
	}
	if p.Edit2 != nil {
		edits = append(edits, *p.Edit2)
	}
	src, err := PrepareSource(w, p.Prog, p.Prog, edits)
	if err != nil {
		return nil, err
	}
	o := &Outcome{Faults: map[string]int{}, Probes: map[string]int{}, Traces: map[string][]engine.Step{}}
	var keyParts []string
	applyFault := func(f c07Fault) error {
		rel, ok := snap.Roles[f.Role]
		if !ok {
			return fmt.Errorf("c07: unknown role %s", f.Role)
		}
		if err := damage(filepath.Join(w.Root, rel), f.Mode); err != nil {
			if os.IsNotExist(err) || strings.Contains(err.Error(), "no such file") {
				return nil // already gone (overlapping faults)
			}
			return err
		}
		o.Faults[f.Mode]++
		return nil
	}
	for _, f := range p.Faults {
		if err := applyFault(f); err != nil {
			return nil, err
		}
		keyParts = append(keyParts, roleClass(f.Role)+":"+f.Mode)
	}
	for _, d := range p.Dirs {
		switch d {
		case "garble/build":
			os.RemoveAll(filepath.Join(w.GarbleCache, "build"))
		case "garble/tool":
			os.RemoveAll(filepath.Join(w.GarbleCache, "tool"))
		case "garble":
			os.RemoveAll(w.GarbleCache)
		case "gocache-new":
			for _, r := range snap.NewGC {
				os.Remove(filepath.Join(w.Root, snap.Roles[r]))
			}
		case "gocache":
			os.RemoveAll(w.GoCache)
			os.MkdirAll(w.GoCache, 0o755)
		}
		o.Faults["rmdir:"+d]++
		keyParts = append(keyParts, "rm:"+d)
	}
	sort.Strings(keyParts)
	out := filepath.Join(w.Out, "bin")
	serial := p.P <= 1
	cl := w.Client("A", src, cfg, "build", fmt.Sprintf("-p=%d", p.P), "-o", out, ".")
	var hook func(*engine.Sim, engine.Step)
	if p.MidFault != nil {
		fired := false
		hook = func(s *engine.Sim, st engine.Step) {
			if !fired && len(s.Steps) >= p.MidStep {
				fired = true
				if rel, ok := snap.Roles[p.MidFault.Role]; ok {
					if damage(filepath.Join(w.Root, rel), p.MidFault.Mode) == nil {
						o.Faults["mid:"+p.MidFault.Mode]++
					}
				}
			}
		}
		keyParts = append(keyParts, "mid:"+roleClass(p.MidFault.Role)+":"+p.MidFault.Mode)
	}
	var s *engine.Sim
	if p.Ungated {
		_, se, code := w.RunPlain(src, cfg, "build", "-o", out, ".")
		cl.ExitCode = code
		cl.Stderr.WriteString(se)
		s = &engine.Sim{}
	} else {
		s, err = runSim(w, []*engine.Client{cl}, p.Sched.Policy(), serial, cs.Traces["rebuild"], hook)
		if err != nil {
			return nil, err
		}
	}
	o.SimRuns++
	o.Steps += len(s.Steps)
	o.Choice += s.Stats.ChoicePoints
	o.Traces["rebuild"] = s.Steps
	o.SchedHash = schedHash(s.Steps)
	nfaults := 0
	for _, v := range o.Faults {
		nfaults += v
	}
	o.NonTrivial = nfaults > 0
	o.Fingerprint = string(cs.Params)
	o.Sample = map[string]any{"params": p, "rebuild_steps": len(s.Steps), "compile_procs": s.Stats.CompileProcs}
	key := strings.Join(keyParts, "+")
	if key == "" {
		key = "no-fault"
	}
	viol := func(class, detail string) (*Outcome, error) {
		o.Violation = &Violation{Class: class, Key: class + "/" + key, Detail: detail}
		return o, nil
	}
	if s.Deadlock {
		return viol("rebuild-deadlock", "no process could proceed during the rebuild")
	}
	if cl.ExitCode != 0 {
		return viol("rebuild-failed", fmt.Sprintf("rebuild after damaging %s exited %d:\n%s", key, cl.ExitCode, shortErr(cl.Stderr.String())))
	}
	ref, err := e.Reference(RefSpec{Prog: p.Prog, Edits: edits, Cfg: cfg, DebugDir: p.DebugDir})
	if err != nil {
		return nil, err
	}
	if !ref.BuildOK {
		return nil, fmt.Errorf("c07: reference build failed: %s", shortErr(ref.Stderr))
	}
	if got := world.HashFile(out); got != ref.Sha {
		return viol("binary-differs", fmt.Sprintf("binary after damaging %s is %s, cold reference is %s", key, got[:16], ref.Sha[:16]))
	}
	plain, err := e.Plain(p.Prog, edits, nil, "")
	if err != nil {
		return nil, err
	}
	so, rc := RunBinary(out)
	if so != plain.Stdout || rc != plain.RunExit {
		return viol("behaviour-differs", fmt.Sprintf("program output after damaging %s:\n%s\nplain build prints:\n%s", key, firstLines(so, 12), firstLines(plain.Stdout, 12)))
	}
	// Monitor: a cache hit returns bytes somebody put under that key.
	puts := map[string]map[string]bool{}
	for k, v := range snap.Puts {
		puts[k] = map[string]bool{}
		for s := range v {
			puts[k][s] = true
		}
	}
	putBy := map[string]string{}
	for _, le := range s.Log {
		if le.Msg.T != "note" {
			continue
		}
		switch le.Msg.Op {
		case "cache-put":
			if puts[le.Msg.Key] == nil {
				puts[le.Msg.Key] = map[string]bool{}
			}
			puts[le.Msg.Key][le.Msg.Sum] = true
			o.Probes["entry-recomputed"]++
			if putBy[le.Msg.Key] != "" && putBy[le.Msg.Key] != le.Proc {
				o.Probes["two-processes-put-the-same-entry"]++
			}
			putBy[le.Msg.Key] = le.Proc
		case "cache-get":
			if le.Msg.Err == "" {
				if known, ok := puts[le.Msg.Key]; ok && !known[le.Msg.Sum] {
					return viol("cache-hit-wrong-bytes", fmt.Sprintf("GetFile(%s) returned content %s that was never put under that key", le.Msg.Key, le.Msg.Sum))
				}
			} else {
				o.Probes["cache-miss-seen"]++
			}
		}
	}
	if s.Stats.CompileProcs > 0 && strings.Contains(key, "|reflect") {
		o.Probes["dependant-recompiled-over-damaged-dependency"]++
	}
	if p.DebugDir {
		deps, err := e.Deps(p.Prog, edits)
		if err != nil {
			return nil, err
		}
		sum, n, extras := DebugDirSum(filepath.Join(w.Out, "debugdir"), deps)
		o.Probes["debugdir-files-of-unbuilt-packages"] += extras
		if sum != ref.DebugSum {
			return viol("debugdir-differs", fmt.Sprintf("-debugdir trees of the build's packages after damaging %s have %d files and differ from the cold reference (%d files)", key, n, ref.DebugN))
		}
	}
	if !p.Noop || p.Ungated {
		return o, nil
	}
	// Liveness: a further fault-free rebuild is a no-op that succeeds.
	cl2 :=w.Client("A", src, cfg, "build", "-p=1", "-o", out, ".")
	s2, err := runSim(w, []*engine.Client{cl2}, engine.Canonical{}, true, nil, nil)
	if err != nil {
		return nil, err
	}
	o.SimRuns++
	o.Steps += len(s2.Steps)
	if cl2.ExitCode != 0 {
		return viol("noop-rebuild-failed", fmt.Sprintf("second rebuild exited %d: %s", cl2.ExitCode, shortErr(cl2.Stderr.String())))
	}
	if s2.Stats.CompileProcs+s2.Stats.AsmProcs > 0 && p.MidFault == nil {
		return viol("noop-rebuild-recompiled", fmt.Sprintf("a rebuild with nothing changed ran %d compile and %d asm steps", s2.Stats.CompileProcs, s2.Stats.AsmProcs))
	}
	if got := world.HashFile(out); got != ref.Sha {
		return viol("binary-differs", "binary after the no-op rebuild differs from the cold reference")
	}
	return o, nil
}

// roleClass strips run-specific indexes so that known-finding keys are stable.
func roleClass(role string) string {
	if strings.HasPrefix(role, "std|") {
		return "std-entry"
	}
	if strings.HasPrefix(role, "gocache|") {
		return "gocache-file"
	}
	return role
}

func (c c07) Shrink(cs *Case) []*Case {
	var p c07Params
	if json.Unmarshal(cs.Params, &p) != nil {
		return nil
	}
	var out []*Case
	mk := func(q c07Params) {
		nc := *cs
		nc.Params = mustJSON(q)
		nc.Traces = nil
		out = append(out, &nc)
	}
	if p.P > 1 {
		q := p
		q.P = 1
		q.Sched = SchedSpec{Kind: "canonical"}
		mk(q)
	}
	if len(p.Faults)+len(p.Dirs) > 1 {
		for i := range p.Faults {
			q := p
			q.Faults = append(append([]c07Fault{}, p.Faults[:i]...), p.Faults[i+1:]...)
			mk(q)
		}
		for i := range p.Dirs {
			q := p
			q.Dirs = append(append([]string{}, p.Dirs[:i]...), p.Dirs[i+1:]...)
			mk(q)
		}
	}
	if p.MidFault != nil && len(p.Faults)+len(p.Dirs) > 0 {
		q := p
		q.MidFault = nil
		q.MidStep = 0
		mk(q)
	}
	for i, f := range p.Faults {
		if f.Mode != "delete" && f.Mode != "empty" {
			q := p
			q.Faults = append([]c07Fault{}, p.Faults...)
			q.Faults[i].Mode = "empty"
			mk(q)
		}
	}
	return out
}
