package main

import (
	"encoding/json"
	"fmt"
	"os"

	"verif.local/sim/simbuild"
)

func main() {
	if len(os.Args) < 2 {
		fmt.Fprintln(os.Stderr, "usage: verifsim <build|...>")
		os.Exit(2)
	}
	switch os.Args[1] {
	case "build":
		res, err := simbuild.Build("/repo", os.Stderr)
		if err != nil {
			fmt.Fprintln(os.Stderr, "build failed:", err)
			os.Exit(2)
		}
		b, _ := json.MarshalIndent(res, "", " ")
		fmt.Println(string(b))
	}
}
