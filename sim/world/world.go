// Package world manages the durable state a simulated run works on: a run
// directory in tmpfs holding GOCACHE, GARBLE_CACHE, TMPDIR, the source tree and
// the outputs; per-configuration std templates; and memoised reference builds.
package world

import (
	"crypto/sha256"
	"encoding/hex"
	"encoding/json"
	"fmt"
	"io/fs"
	"os"
	"os/exec"
	"path/filepath"
	"sort"
	"strings"
	"syscall"

	"verif.local/sim/engine"
	"verif.local/sim/simbuild"
)

// Config is one garble configuration (κ in DESIGN.md).
type Config struct {
	Name       string            `json:"name"`
	Flags      []string          `json:"flags,omitempty"`      // garble flags, before the command
	Env        map[string]string `json:"env,omitempty"`        // GOGARBLE, GARBLE_EXPERIMENTAL_CONTROLFLOW, GOOS...
	BuildFlags []string          `json:"buildflags,omitempty"` // go flags, after the command
}

func (c Config) Key() string {
	b, _ := json.Marshal(c)
	s := sha256.Sum256(b)
	return hex.EncodeToString(s[:6])
}

// World is one run directory.
type World struct {
	Root        string
	GoCache     string
	GarbleCache string
	Tmp         string
	Src         string // parent of source trees
	Out         string
	Home        string
	Garble      string // garble-sim binary
	RtSeed      string
	TmplFiles   map[string]bool // GOCACHE files that came with the template (relative paths)
}

func New(garble, prefix string) (*World, error) {
	base := simbuild.ScratchBase()
	os.MkdirAll(base, 0o755)
	root, err := os.MkdirTemp(base, "verif-run-"+prefix+"-")
	if err != nil {
		return nil, err
	}
	w := &World{Root: root, Garble: garble, RtSeed: "1"}
	w.GoCache = filepath.Join(root, "gocache")
	w.GarbleCache = filepath.Join(root, "garblecache")
	w.Tmp = filepath.Join(root, "tmp")
	w.Src = filepath.Join(root, "src")
	w.Out = filepath.Join(root, "out")
	w.Home = filepath.Join(root, "home")
	for _, d := range []string{w.GoCache, w.GarbleCache, w.Tmp, w.Src, w.Out, w.Home} {
		if err := os.MkdirAll(d, 0o755); err != nil {
			return nil, err
		}
	}
	return w, nil
}

func (w *World) Close() {
	if w == nil || w.Root == "" {
		return
	}
	if os.Getenv("VERIF_KEEP_WORLD") != "" {
		// Debugging aid: leave the run directory behind (the caller cleans up).
		fmt.Fprintf(os.Stderr, "kept world %s\n", w.Root)
		return
	}
	// Module cache style read-only dirs do not occur, but be safe.
	filepath.WalkDir(w.Root, func(p string, d fs.DirEntry, err error) error {
		if err == nil && d.IsDir() {
			os.Chmod(p, 0o755)
		}
		return nil
	})
	os.RemoveAll(w.Root)
}

// Env returns the complete environment of a garble command in this world.
func (w *World) Env(cfg Config) []string {
	env := []string{
		"HOME=" + w.Home,
		"PATH=" + filepath.Join(simbuild.GoRoot(), "bin") + ":/usr/local/bin:/usr/bin:/bin",
		"GOCACHE=" + w.GoCache,
		"GARBLE_CACHE=" + w.GarbleCache,
		"TMPDIR=" + w.Tmp,
		"GOTOOLCHAIN=local", "GOPROXY=off", "GOSUMDB=off", "GOFLAGS=-mod=mod", "GOENV=off", "GOTELEMETRY=off",
		"GONOSUMDB=*", "GOWORK=off", "CGO_ENABLED=0", "LC_ALL=C",
	}
	keys := make([]string, 0, len(cfg.Env))
	for k := range cfg.Env {
		keys = append(keys, k)
	}
	sort.Strings(keys)
	for _, k := range keys {
		env = append(env, k+"="+cfg.Env[k])
	}
	return env
}

// Client builds an engine client for "garble <cfg.Flags> <command> <cfg.BuildFlags> <args>".
func (w *World) Client(tag, dir string, cfg Config, command string, args ...string) *engine.Client {
	a := []string{}
	for _, f := range cfg.Flags {
		a = append(a, strings.ReplaceAll(f, "$OUT", w.Out))
	}
	a = append(a, command)
	a = append(a, cfg.BuildFlags...)
	a = append(a, args...)
	return &engine.Client{
		Tag: tag, Dir: dir, Args: a, Env: w.Env(cfg), RtSeed: w.RtSeed,
		Watch: []string{w.GarbleCache, w.Tmp, w.Out, w.Src},
	}
}

// RunPlain runs a garble-sim command outside the simulator (templates,
// references): real parallelism, no gates, runtime seed still fixed.
func (w *World) RunPlain(dir string, cfg Config, command string, args ...string) (stdout, stderr string, code int) {
	c := w.Client("plain", dir, cfg, command, args...)
	cmd := exec.Command(w.Garble, c.Args...)
	cmd.Dir = dir
	cmd.Env = append(c.Env, "VERIF_RTSEED="+w.RtSeed)
	var so, se strings.Builder
	cmd.Stdout, cmd.Stderr = &so, &se
	cmd.SysProcAttr = &syscall.SysProcAttr{Setpgid: true}
	err := cmd.Run()
	if err != nil {
		if ee, ok := err.(*exec.ExitError); ok {
			code = ee.ExitCode()
		} else {
			code = -2
			se.WriteString(err.Error())
		}
	}
	return so.String(), se.String(), code
}

// GoPlain runs the real go command (plain reference builds).
func (w *World) GoPlain(dir string, args ...string) (string, string, int) {
	cmd := exec.Command(filepath.Join(simbuild.GoRoot(), "bin", "go"), args...)
	cmd.Dir = dir
	cmd.Env = w.Env(Config{})
	var so, se strings.Builder
	cmd.Stdout, cmd.Stderr = &so, &se
	code := 0
	if err := cmd.Run(); err != nil {
		if ee, ok := err.(*exec.ExitError); ok {
			code = ee.ExitCode()
		} else {
			code = -2
			se.WriteString(err.Error())
		}
	}
	return so.String(), se.String(), code
}

// CopyTree copies src into dst (regular files, dirs and symlinks).
func CopyTree(src, dst string) error {
	return filepath.WalkDir(src, func(p string, d fs.DirEntry, err error) error {
		if err != nil {
			return err
		}
		rel, _ := filepath.Rel(src, p)
		target := filepath.Join(dst, rel)
		switch {
		case d.IsDir():
			return os.MkdirAll(target, 0o755)
		case d.Type()&fs.ModeSymlink != 0:
			l, err := os.Readlink(p)
			if err != nil {
				return err
			}
			return os.Symlink(l, target)
		case d.Type().IsRegular():
			b, err := os.ReadFile(p)
			if err != nil {
				return err
			}
			fi, _ := d.Info()
			if err := os.WriteFile(target, b, fi.Mode().Perm()|0o600); err != nil {
				return err
			}
			return os.Chtimes(target, fi.ModTime(), fi.ModTime())
		}
		return nil
	})
}

var corpusRoot string

// CorpusRoot is where corpus programs are read from: /verif/corpus, or the
// snapshot a check run took of it at start (so that edits to the corpus while a
// long run is under way cannot make its cases and references disagree).
func CorpusRoot() string {
	if corpusRoot != "" {
		return corpusRoot
	}
	return filepath.Join(simbuild.VerifDir(), "corpus")
}

// SnapshotCorpus copies the corpus to a scratch directory and makes it the root.
func SnapshotCorpus() (cleanup func(), err error) {
	dir, err := os.MkdirTemp(simbuild.ScratchBase(), "verif-corpus-")
	if err != nil {
		return nil, err
	}
	if err := CopyTree(filepath.Join(simbuild.VerifDir(), "corpus"), dir); err != nil {
		os.RemoveAll(dir)
		return nil, err
	}
	corpusRoot = dir
	return func() { os.RemoveAll(dir) }, nil
}

// CopyCorpus copies corpus program name into the world's source area under dirName.
func (w *World) CopyCorpus(name, dirName string) (string, error) {
	dst := filepath.Join(w.Src, dirName)
	if err := CopyTree(filepath.Join(CorpusRoot(), name), dst); err != nil {
		return "", err
	}
	return dst, nil
}

// HashFile returns the hex sha256 of a file ("" if unreadable).
func HashFile(p string) string {
	b, err := os.ReadFile(p)
	if err != nil {
		return ""
	}
	s := sha256.Sum256(b)
	return hex.EncodeToString(s[:])
}

// HashTree returns a hash over names, modes (type bits) and contents below root.
func HashTree(root string, skip func(rel string) bool) string {
	h := sha256.New()
	var names []string
	filepath.WalkDir(root, func(p string, d fs.DirEntry, err error) error {
		if err != nil {
			return nil
		}
		rel, _ := filepath.Rel(root, p)
		if skip != nil && skip(rel) {
			if d.IsDir() {
				return filepath.SkipDir
			}
			return nil
		}
		names = append(names, rel)
		return nil
	})
	sort.Strings(names)
	for _, rel := range names {
		p := filepath.Join(root, rel)
		fi, err := os.Lstat(p)
		if err != nil {
			continue
		}
		fmt.Fprintf(h, "%s %v ", rel, fi.Mode().Type())
		switch {
		case fi.Mode().IsRegular():
			b, _ := os.ReadFile(p)
			fmt.Fprintf(h, "%d ", len(b))
			h.Write(b)
		case fi.Mode()&fs.ModeSymlink != 0:
			l, _ := os.Readlink(p)
			h.Write([]byte(l))
		}
		h.Write([]byte{'\n'})
	}
	return hex.EncodeToString(h.Sum(nil))
}

// ListFiles lists regular files below root (relative, sorted).
func ListFiles(root string) []string {
	var out []string
	filepath.WalkDir(root, func(p string, d fs.DirEntry, err error) error {
		if err == nil && d.Type().IsRegular() {
			rel, _ := filepath.Rel(root, p)
			out = append(out, rel)
		}
		return nil
	})
	sort.Strings(out)
	return out
}

// ListAll lists everything below root (relative, sorted), dirs with a trailing slash.
func ListAll(root string) []string {
	var out []string
	filepath.WalkDir(root, func(p string, d fs.DirEntry, err error) error {
		if err != nil || p == root {
			return nil
		}
		rel, _ := filepath.Rel(root, p)
		if d.IsDir() {
			rel += "/"
		}
		out = append(out, rel)
		return nil
	})
	sort.Strings(out)
	return out
}
