package verifrt

import (
	"io/fs"
	"os"
	"os/exec"
	"sync"
	"syscall"
	"time"
)

// ---- write-side os functions ----

var (
	wfilesMu sync.Mutex
	wfiles   = map[*os.File]bool{}
)

func markW(f *os.File) {
	wfilesMu.Lock()
	wfiles[f] = true
	wfilesMu.Unlock()
}

func isW(f *os.File) bool {
	wfilesMu.Lock()
	defer wfilesMu.Unlock()
	return wfiles[f]
}

func unmarkW(f *os.File) {
	wfilesMu.Lock()
	delete(wfiles, f)
	wfilesMu.Unlock()
}

func Os_WriteFile(site string, name string, data []byte, perm os.FileMode) error {
	if !active {
		return os.WriteFile(name, data, perm)
	}
	d := gate(site, "writefile", name, "", int64(len(data)), 0)
	switch d.D {
	case "fail":
		return pathErr("open", name, d.Errno)
	case "short", "torn":
		n := d.N
		if n > int64(len(data)) {
			n = int64(len(data))
		}
		f, err := os.OpenFile(name, os.O_WRONLY|os.O_CREATE|os.O_TRUNC, perm)
		if err != nil {
			return err
		}
		f.Write(data[:n])
		f.Close()
		if d.D == "torn" {
			parkForever(site, "writefile", name)
		}
		return pathErr("write", name, int(syscall.ENOSPC))
	}
	return os.WriteFile(name, data, perm)
}

func Os_Create(site string, name string) (*os.File, error) {
	return Os_OpenFile(site, name, os.O_RDWR|os.O_CREATE|os.O_TRUNC, 0o666)
}

func Os_OpenFile(site string, name string, flag int, perm os.FileMode) (*os.File, error) {
	if !active {
		return os.OpenFile(name, flag, perm)
	}
	writing := flag&(os.O_WRONLY|os.O_RDWR|os.O_CREATE|os.O_TRUNC|os.O_APPEND) != 0
	if !writing && !watched(name) {
		return os.OpenFile(name, flag, perm)
	}
	op := "open"
	if writing {
		op = "openw"
	}
	d := gate(site, op, name, "", 0, flag)
	if d.D == "fail" {
		return nil, pathErr("open", name, d.Errno)
	}
	f, err := os.OpenFile(name, flag, perm)
	if err == nil && writing {
		markW(f)
	}
	return f, err
}

func Os_Open(site string, name string) (*os.File, error) {
	return Os_OpenFile(site, name, os.O_RDONLY, 0)
}

func Os_CreateTemp(site string, dir, pattern string) (*os.File, error) {
	if !active {
		return os.CreateTemp(dir, pattern)
	}
	d := gate(site, "createtemp", dir, pattern, 0, 0)
	if d.D == "fail" {
		return nil, pathErr("open", dir+"/"+pattern, d.Errno)
	}
	f, err := os.CreateTemp(dir, pattern)
	if err == nil {
		markW(f)
		note(Msg{Site: site, Op: "created", Path: f.Name()})
	}
	return f, err
}

func Os_MkdirTemp(site string, dir, pattern string) (string, error) {
	if !active {
		return os.MkdirTemp(dir, pattern)
	}
	d := gate(site, "mkdirtemp", dir, pattern, 0, 0)
	if d.D == "fail" {
		return "", pathErr("mkdir", dir+"/"+pattern, d.Errno)
	}
	p, err := os.MkdirTemp(dir, pattern)
	if err == nil {
		note(Msg{Site: site, Op: "created", Path: p})
	}
	return p, err
}

func Os_MkdirAll(site string, path string, perm os.FileMode) error {
	if !active {
		return os.MkdirAll(path, perm)
	}
	// MkdirAll of an existing directory is a no-op: not worth a schedule point.
	if fi, err := os.Stat(path); err == nil && fi.IsDir() {
		return nil
	}
	d := gate(site, "mkdirall", path, "", 0, 0)
	if d.D == "fail" {
		return pathErr("mkdir", path, d.Errno)
	}
	return os.MkdirAll(path, perm)
}

func Os_Mkdir(site string, path string, perm os.FileMode) error {
	if !active {
		return os.Mkdir(path, perm)
	}
	d := gate(site, "mkdir", path, "", 0, 0)
	if d.D == "fail" {
		return pathErr("mkdir", path, d.Errno)
	}
	return os.Mkdir(path, perm)
}

func Os_Remove(site string, name string) error {
	if !active {
		return os.Remove(name)
	}
	d := gate(site, "remove", name, "", 0, 0)
	if d.D == "fail" {
		return pathErr("remove", name, d.Errno)
	}
	return os.Remove(name)
}

func Os_RemoveAll(site string, path string) error {
	if !active {
		return os.RemoveAll(path)
	}
	d := gate(site, "removeall", path, "", 0, 0)
	if d.D == "fail" {
		return pathErr("unlinkat", path, d.Errno)
	}
	return os.RemoveAll(path)
}

func Os_Rename(site string, oldpath, newpath string) error {
	if !active {
		return os.Rename(oldpath, newpath)
	}
	d := gate(site, "rename", oldpath, newpath, 0, 0)
	if d.D == "fail" {
		return &os.LinkError{Op: "rename", Old: oldpath, New: newpath, Err: syscall.Errno(d.Errno)}
	}
	return os.Rename(oldpath, newpath)
}

func Os_Chtimes(site string, name string, atime, mtime time.Time) error {
	if !active {
		return os.Chtimes(name, atime, mtime)
	}
	d := gate(site, "chtimes", name, "", 0, 0)
	if d.D == "fail" {
		return pathErr("chtimes", name, d.Errno)
	}
	return os.Chtimes(name, atime, mtime)
}

func Os_Truncate(site string, name string, size int64) error {
	if !active {
		return os.Truncate(name, size)
	}
	d := gate(site, "truncate", name, "", size, 0)
	if d.D == "fail" {
		return pathErr("truncate", name, d.Errno)
	}
	return os.Truncate(name, size)
}

func Os_Symlink(site string, oldname, newname string) error {
	if !active {
		return os.Symlink(oldname, newname)
	}
	d := gate(site, "symlink", oldname, newname, 0, 0)
	if d.D == "fail" {
		return &os.LinkError{Op: "symlink", Old: oldname, New: newname, Err: syscall.Errno(d.Errno)}
	}
	return os.Symlink(oldname, newname)
}

func Os_Exit(site string, code int) {
	if active {
		note(Msg{Site: site, Op: "exit", Code: code})
	}
	os.Exit(code)
}

// ---- read-side os functions (gated only under watched roots) ----

func Os_ReadFile(site string, name string) ([]byte, error) {
	if !active || !watched(name) {
		return os.ReadFile(name)
	}
	d := gate(site, "readfile", name, "", 0, 0)
	if d.D == "fail" {
		return nil, pathErr("open", name, d.Errno)
	}
	return os.ReadFile(name)
}

func Os_Stat(site string, name string) (os.FileInfo, error) {
	if !active || !watched(name) {
		return os.Stat(name)
	}
	d := gate(site, "stat", name, "", 0, 0)
	if d.D == "fail" {
		return nil, pathErr("stat", name, d.Errno)
	}
	return os.Stat(name)
}

func Os_Lstat(site string, name string) (os.FileInfo, error) {
	if !active || !watched(name) {
		return os.Lstat(name)
	}
	d := gate(site, "lstat", name, "", 0, 0)
	if d.D == "fail" {
		return nil, pathErr("lstat", name, d.Errno)
	}
	return os.Lstat(name)
}

func Os_ReadDir(site string, name string) ([]os.DirEntry, error) {
	if !active || !watched(name) {
		return os.ReadDir(name)
	}
	d := gate(site, "readdir", name, "", 0, 0)
	if d.D == "fail" {
		return nil, pathErr("open", name, d.Errno)
	}
	return os.ReadDir(name)
}

// ---- *os.File methods ----

func File_Write(site string, f *os.File, b []byte) (int, error) {
	if !active || !isW(f) {
		return f.Write(b)
	}
	d := gate(site, "write", f.Name(), "", int64(len(b)), 0)
	switch d.D {
	case "fail":
		return 0, pathErr("write", f.Name(), d.Errno)
	case "short", "torn":
		n := d.N
		if n > int64(len(b)) {
			n = int64(len(b))
		}
		m, _ := f.Write(b[:n])
		if d.D == "torn" {
			parkForever(site, "write", f.Name())
		}
		return m, pathErr("write", f.Name(), int(syscall.ENOSPC))
	}
	return f.Write(b)
}

func File_WriteString(site string, f *os.File, s string) (int, error) {
	if !active || !isW(f) {
		return f.WriteString(s)
	}
	return File_Write(site, f, []byte(s))
}

func File_Truncate(site string, f *os.File, size int64) error {
	if !active || !isW(f) {
		return f.Truncate(size)
	}
	d := gate(site, "ftruncate", f.Name(), "", size, 0)
	if d.D == "fail" {
		return pathErr("truncate", f.Name(), d.Errno)
	}
	return f.Truncate(size)
}

func File_Close(site string, f *os.File) error {
	if !active || f == nil || !isW(f) {
		return f.Close()
	}
	unmarkW(f)
	d := gate(site, "close", f.Name(), "", 0, 0)
	if d.D == "fail" {
		f.Close()
		return pathErr("close", f.Name(), d.Errno)
	}
	return f.Close()
}

func File_Readdirnames(site string, f *os.File, n int) ([]string, error) {
	return f.Readdirnames(n)
}

// ---- exec ----

func failCmd(c *exec.Cmd) {
	// Replace the tool by one that exits 1 without doing anything, so the caller
	// sees a genuine *exec.ExitError.
	c.Path = "/bin/false"
	c.Args = []string{"false"}
	c.Err = nil
}

func cmdGate(site, op string, c *exec.Cmd) {
	d := gateArgs(site, op, c.Path, c.Args)
	if d.D == "toolfail" || d.D == "fail" {
		failCmd(c)
	}
}

func exitCode(err error) int {
	if err == nil {
		return 0
	}
	if ee, ok := err.(*exec.ExitError); ok {
		return ee.ExitCode()
	}
	return -1
}

func Cmd_Run(site string, c *exec.Cmd) error {
	if !active {
		return c.Run()
	}
	cmdGate(site, "exec", c)
	err := c.Run()
	roundTrip(Msg{T: "ev", Site: site, Op: "exec-done", Path: c.Path, Code: exitCode(err)})
	return err
}

func Cmd_Output(site string, c *exec.Cmd) ([]byte, error) {
	if !active {
		return c.Output()
	}
	cmdGate(site, "exec", c)
	out, err := c.Output()
	roundTrip(Msg{T: "ev", Site: site, Op: "exec-done", Path: c.Path, Code: exitCode(err)})
	return out, err
}

func Cmd_CombinedOutput(site string, c *exec.Cmd) ([]byte, error) {
	if !active {
		return c.CombinedOutput()
	}
	cmdGate(site, "exec", c)
	out, err := c.CombinedOutput()
	roundTrip(Msg{T: "ev", Site: site, Op: "exec-done", Path: c.Path, Code: exitCode(err)})
	return out, err
}

func Cmd_Start(site string, c *exec.Cmd) error {
	if !active {
		return c.Start()
	}
	cmdGate(site, "exec-start", c)
	err := c.Start()
	// The caller now reads from the child's pipes; it counts as running until
	// its next event.
	note(Msg{Site: site, Op: "exec-started", Path: c.Path, Err: errStr(err)})
	return err
}

func Cmd_Wait(site string, c *exec.Cmd) error {
	if !active {
		return c.Wait()
	}
	err := c.Wait()
	roundTrip(Msg{T: "ev", Site: site, Op: "exec-done", Path: c.Path, Code: exitCode(err)})
	return err
}

// ---- flock ----

// Sys_Flock replaces syscall.Flock. Under the simulator a blocking request is
// turned into non-blocking attempts: when the lock is busy the process parks
// as "flock-blocked" and the simulator releases it again once the lock state
// may have changed. The real flock still provides (or, in a broken tree,
// fails to provide) the exclusion.
func Sys_Flock(site string, fd int, how int) error {
	if !active {
		return syscall.Flock(fd, how)
	}
	path := fdPath(fd)
	if how&syscall.LOCK_UN != 0 {
		gate(site, "funlock", path, "", 0, how)
		return syscall.Flock(fd, how)
	}
	d := gate(site, "flock", path, "", 0, how)
	if d.D == "fail" {
		return syscall.Errno(d.Errno)
	}
	for {
		err := syscall.Flock(fd, how|syscall.LOCK_NB)
		if err == syscall.EWOULDBLOCK && how&syscall.LOCK_NB == 0 {
			gate(site, "flock-blocked", path, "", 0, how)
			continue
		}
		if err == nil {
			note(Msg{Site: site, Op: "flock-acquired", Path: path, Flag: how})
		}
		return err
	}
}

var _ fs.FileInfo
