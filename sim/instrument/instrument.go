// Package instrument rewrites a scratch copy of garble (and of go-internal's
// cache, lockedfile and filelock packages) so that every call whose callee —
// resolved through go/types, not by spelling — is in the routed set goes through
// the verifrt shim. Only call targets change; no other code is touched.
package instrument

import (
	"bytes"
	"fmt"
	"go/ast"
	"go/format"
	"go/token"
	"go/types"
	"os"
	"path/filepath"
	"sort"
	"strconv"
	"strings"

	"golang.org/x/tools/go/ast/astutil"
	"golang.org/x/tools/go/packages"
)

const (
	RtPath    = "verif.local/verifrt"
	NotePath  = "verif.local/verifrt/cachenote"
	cachePath = "github.com/rogpeppe/go-internal/cache"
)

type target struct {
	pkg    string // import path of wrapper package
	name   string // wrapper function
	method bool
}

// routed maps types.Func.FullName() to its wrapper.
var routed = map[string]target{
	"os.WriteFile":  {RtPath, "Os_WriteFile", false},
	"os.Create":     {RtPath, "Os_Create", false},
	"os.OpenFile":   {RtPath, "Os_OpenFile", false},
	"os.Open":       {RtPath, "Os_Open", false},
	"os.CreateTemp": {RtPath, "Os_CreateTemp", false},
	"os.MkdirTemp":  {RtPath, "Os_MkdirTemp", false},
	"os.MkdirAll":   {RtPath, "Os_MkdirAll", false},
	"os.Mkdir":      {RtPath, "Os_Mkdir", false},
	"os.Remove":     {RtPath, "Os_Remove", false},
	"os.RemoveAll":  {RtPath, "Os_RemoveAll", false},
	"os.Rename":     {RtPath, "Os_Rename", false},
	"os.Chtimes":    {RtPath, "Os_Chtimes", false},
	"os.Truncate":   {RtPath, "Os_Truncate", false},
	"os.Symlink":    {RtPath, "Os_Symlink", false},
	"os.Exit":       {RtPath, "Os_Exit", false},
	"os.ReadFile":   {RtPath, "Os_ReadFile", false},
	"os.Stat":       {RtPath, "Os_Stat", false},
	"os.Lstat":      {RtPath, "Os_Lstat", false},
	"os.ReadDir":    {RtPath, "Os_ReadDir", false},

	"(*os.File).Write":        {RtPath, "File_Write", true},
	"(*os.File).WriteString":  {RtPath, "File_WriteString", true},
	"(*os.File).Truncate":     {RtPath, "File_Truncate", true},
	"(*os.File).Close":        {RtPath, "File_Close", true},
	"(*os.File).Readdirnames": {RtPath, "File_Readdirnames", true},

	"(*os/exec.Cmd).Run":            {RtPath, "Cmd_Run", true},
	"(*os/exec.Cmd).Output":         {RtPath, "Cmd_Output", true},
	"(*os/exec.Cmd).CombinedOutput": {RtPath, "Cmd_CombinedOutput", true},
	"(*os/exec.Cmd).Start":          {RtPath, "Cmd_Start", true},
	"(*os/exec.Cmd).Wait":           {RtPath, "Cmd_Wait", true},

	"syscall.Flock": {RtPath, "Sys_Flock", false},

	"(*" + cachePath + ".Cache).GetFile":  {NotePath, "Cache_GetFile", true},
	"(*" + cachePath + ".Cache).PutBytes": {NotePath, "Cache_PutBytes", true},
	"(*" + cachePath + ".Cache).Trim":     {NotePath, "Cache_Trim", true},
}

// Report summarises one instrumentation run.
type Report struct {
	Sites        int               // rewritten call sites
	ByCallee     map[string]int    // callee -> count
	Unrouted     []string          // references to routed callees that are not direct calls
	ClockSites   []string          // every time.Now/Since/... reference (C03 clock assumption)
	GlobalRand   []string          // uses of top-level math/rand functions
	MapRanges    int               // informational
	SiteList     []string          // all site ids
	FilesChanged int
}

// Run loads the packages matching patterns in dir and rewrites them in place.
// Cache bracket wrappers are only applied outside go-internal (cacheNotes).
func Run(dir string, env []string, patterns []string) (*Report, error) {
	cfg := &packages.Config{
		Mode: packages.NeedName | packages.NeedFiles | packages.NeedCompiledGoFiles | packages.NeedSyntax |
			packages.NeedTypes | packages.NeedTypesInfo | packages.NeedImports | packages.NeedDeps,
		Dir:  dir,
		Env:  env,
		Fset: token.NewFileSet(),
	}
	pkgs, err := packages.Load(cfg, patterns...)
	if err != nil {
		return nil, err
	}
	rep := &Report{ByCallee: map[string]int{}}
	want := map[string]bool{}
	var errs []string
	for _, p := range pkgs {
		want[p.ID] = true
		for _, e := range p.Errors {
			errs = append(errs, p.ID+": "+e.Error())
		}
	}
	if len(errs) > 0 {
		return nil, fmt.Errorf("loading packages: %s", strings.Join(errs, "; "))
	}
	sort.Slice(pkgs, func(i, j int) bool { return pkgs[i].ID < pkgs[j].ID })
	for _, p := range pkgs {
		inGoInternal := strings.HasPrefix(p.PkgPath, "github.com/rogpeppe/go-internal")
		for i, f := range p.Syntax {
			fname := p.CompiledGoFiles[i]
			if strings.HasSuffix(fname, "_test.go") {
				continue
			}
			changed, err := rewriteFile(cfg.Fset, p, f, inGoInternal, rep)
			if err != nil {
				return nil, fmt.Errorf("%s: %v", fname, err)
			}
			if !changed {
				continue
			}
			var buf bytes.Buffer
			if err := format.Node(&buf, cfg.Fset, f); err != nil {
				return nil, fmt.Errorf("%s: %v", fname, err)
			}
			if err := os.WriteFile(fname, buf.Bytes(), 0o644); err != nil {
				return nil, err
			}
			rep.FilesChanged++
		}
	}
	sort.Strings(rep.SiteList)
	sort.Strings(rep.Unrouted)
	sort.Strings(rep.ClockSites)
	sort.Strings(rep.GlobalRand)
	return rep, nil
}

func calleeOf(info *types.Info, call *ast.CallExpr) (*types.Func, *ast.SelectorExpr) {
	sel, ok := ast.Unparen(call.Fun).(*ast.SelectorExpr)
	if !ok {
		return nil, nil
	}
	fn, _ := info.Uses[sel.Sel].(*types.Func)
	return fn, sel
}

func rewriteFile(fset *token.FileSet, p *packages.Package, f *ast.File, inGoInternal bool, rep *Report) (bool, error) {
	info := p.TypesInfo
	changed := false
	needRt, needNote := false, false
	counters := map[string]int{}
	callFuns := map[*ast.SelectorExpr]bool{}
	var rerr error

	// enclosing function names
	var stack []string
	funcName := func() string {
		if len(stack) == 0 {
			return "init"
		}
		return stack[0]
	}

	var visit func(n ast.Node) bool
	visit = func(n ast.Node) bool {
		switch n := n.(type) {
		case *ast.FuncDecl:
			name := n.Name.Name
			if n.Recv != nil && len(n.Recv.List) == 1 {
				name = recvName(n.Recv.List[0].Type) + "." + name
			}
			stack = append([]string{name}, stack...)
			if n.Body != nil {
				ast.Inspect(n.Body, visit)
			}
			stack = stack[1:]
			return false
		case *ast.CallExpr:
			fn, sel := calleeOf(info, n)
			if fn == nil {
				return true
			}
			callFuns[sel] = true
			full := fn.FullName()
			tgt, ok := routed[full]
			if !ok {
				return true
			}
			if tgt.pkg == NotePath && inGoInternal {
				return true
			}
			key := p.Name + "." + funcName() + "/" + shortCallee(full)
			counters[key]++
			site := key + "#" + strconv.Itoa(counters[key])
			args := []ast.Expr{&ast.BasicLit{Kind: token.STRING, Value: strconv.Quote(site)}}
			if tgt.method {
				recv, err := explicitRecv(info, sel)
				if err != nil {
					rerr = fmt.Errorf("%s: %v", fset.Position(n.Pos()), err)
					return false
				}
				args = append(args, recv)
			}
			args = append(args, n.Args...)
			alias := "verifrt"
			if tgt.pkg == NotePath {
				alias = "verifnote"
				needNote = true
			} else {
				needRt = true
			}
			n.Fun = &ast.SelectorExpr{X: ast.NewIdent(alias), Sel: ast.NewIdent(tgt.name)}
			n.Args = args
			changed = true
			rep.Sites++
			rep.ByCallee[full]++
			rep.SiteList = append(rep.SiteList, site)
			return true
		}
		return true
	}
	ast.Inspect(f, visit)
	if rerr != nil {
		return false, rerr
	}

	// Informational passes: non-call references to routed callees, clock and
	// global math/rand uses.
	ast.Inspect(f, func(n ast.Node) bool {
		sel, ok := n.(*ast.SelectorExpr)
		if !ok {
			return true
		}
		fn, _ := info.Uses[sel.Sel].(*types.Func)
		if fn == nil || fn.Pkg() == nil {
			return true
		}
		full := fn.FullName()
		pos := fset.Position(sel.Pos())
		where := filepath.Base(pos.Filename) + ":" + strconv.Itoa(pos.Line)
		if _, ok := routed[full]; ok && !callFuns[sel] && !(routed[full].pkg == NotePath && inGoInternal) {
			rep.Unrouted = append(rep.Unrouted, p.PkgPath+" "+where+" "+full)
		}
		if fn.Pkg().Path() == "time" && (fn.Name() == "Now" || fn.Name() == "Since" || fn.Name() == "Until") {
			rep.ClockSites = append(rep.ClockSites, p.PkgPath+" "+where+" "+full)
		}
		if (fn.Pkg().Path() == "math/rand" || fn.Pkg().Path() == "math/rand/v2") && fn.Type().(*types.Signature).Recv() == nil {
			switch fn.Name() {
			case "New", "NewSource", "NewZipf", "NewPCG", "NewChaCha8":
			default:
				rep.GlobalRand = append(rep.GlobalRand, p.PkgPath+" "+where+" "+full)
			}
		}
		return true
	})

	if needRt {
		astutil.AddNamedImport(fset, f, "verifrt", RtPath)
	}
	if needNote {
		astutil.AddNamedImport(fset, f, "verifnote", NotePath)
	}
	// Imports that are no longer referenced must go, or the file won't compile.
	if changed {
		for _, imp := range []string{"os", "os/exec", "syscall"} {
			if !astutil.UsesImport(f, imp) {
				name := ""
				for _, is := range f.Imports {
					if v, _ := strconv.Unquote(is.Path.Value); v == imp && is.Name != nil {
						name = is.Name.Name
					}
				}
				if name == "_" || name == "." {
					continue
				}
				if name != "" {
					astutil.DeleteNamedImport(fset, f, name, imp)
				} else {
					astutil.DeleteImport(fset, f, imp)
				}
			}
		}
	}
	return changed, nil
}

func recvName(e ast.Expr) string {
	switch e := e.(type) {
	case *ast.StarExpr:
		return recvName(e.X)
	case *ast.Ident:
		return e.Name
	case *ast.IndexExpr:
		return recvName(e.X)
	case *ast.IndexListExpr:
		return recvName(e.X)
	}
	return "?"
}

func shortCallee(full string) string {
	full = strings.ReplaceAll(full, "github.com/rogpeppe/go-internal/", "")
	full = strings.NewReplacer("(", "", ")", "", "*", "").Replace(full)
	return full
}

// explicitRecv returns the receiver expression of a method call with any
// implicit embedded-field selections written out, and with & added when the
// method has a pointer receiver but the expression is an addressable value.
func explicitRecv(info *types.Info, sel *ast.SelectorExpr) (ast.Expr, error) {
	s := info.Selections[sel]
	if s == nil {
		return nil, fmt.Errorf("no selection info for %s", sel.Sel.Name)
	}
	expr := sel.X
	t := s.Recv()
	idx := s.Index()
	for _, i := range idx[:len(idx)-1] {
		if p, ok := t.Underlying().(*types.Pointer); ok {
			t = p.Elem()
		}
		st, ok := t.Underlying().(*types.Struct)
		if !ok {
			return nil, fmt.Errorf("embedded path through non-struct %s", t)
		}
		fld := st.Field(i)
		expr = &ast.SelectorExpr{X: expr, Sel: ast.NewIdent(fld.Name())}
		t = fld.Type()
	}
	if _, isPtr := t.Underlying().(*types.Pointer); !isPtr {
		// All routed methods have pointer receivers.
		expr = &ast.UnaryExpr{Op: token.AND, X: &ast.ParenExpr{X: expr}}
	}
	return expr, nil
}
