package checks

import (
	"encoding/json"
	"fmt"
	"math/rand"
	"os"
	"path/filepath"
	"sort"
	"strings"

	"verif.local/sim/engine"
	"verif.local/sim/world"
)

// C18 — an interrupted build leaves nothing that breaks the next one.
//
// The canonical (-p 1) event sequence of a build is recorded once per start
// state; every gated event index is a crash point: the whole process tree is
// SIGKILLed when the chosen process is parked there (for writes also after a
// torn, partial write). Then the same command is run again, fault-free, on the
// same caches (optionally crashing again first). Oracle: the rerun exits 0,
// its binary equals the uninterrupted reference, the program behaves like the
// plain build, and the rerun needs at most 3x the events of an uninterrupted
// build.

func init() { Registry["C18"] = func() Check { return &c18{} } }

type c18 struct{}

func (c18) ID() string    { return "C18" }
func (c18) Level() string { return "fault_enumeration" }
func (c18) Rule() string {
	return "case = (program, config, start state in {template, linker cache empty, linker binary missing with stamp intact, cache aged 7 days, -debugdir build}, -p, schedule, list of crashes (step index, kind in {kill, torn write cut at 0/1/half/size-1, kill with the linker output truncated}), optional loss of the newest GOCACHE files after the kill). Crash points are event indexes of the recorded canonical run; thorough enumerates every index of the template start state and every index of the linker-build and trim windows of the other start states; quick takes a stratified seeded sample that favours mutating events. Non-trivial = at least one kill really happened before the build finished; distinct = distinct (start state, crash list, post-kill damage, schedule)."
}
func (c18) Assumptions() []string {
	return []string{
		"kill = SIGKILL of the whole process group at a parked event; a kill inside an uninstrumented writer (cmd/go, go build -o link) is emulated by killing at the surrounding exec event and truncating the declared output",
		"power loss is out of scope (garble never fsyncs); only process death",
		"the reference is garble-sim itself, uninterrupted, on a fresh template",
	}
}

func (c18) Prepare(e *Env) error {
	_, err := e.Template(cfgDefault)
	return err
}

type c18Crash struct {
	Step int    `json:"step"`
	Kind string `json:"kind"` // kill | torn | kill-trunc-link
	Cut  string `json:"cut,omitempty"`
	// informational, filled from the recording
	Site string `json:"site,omitempty"`
	Op   string `json:"op,omitempty"`
	Proc string `json:"proc,omitempty"`
}

type c18Params struct {
	Prog    string     `json:"prog"`
	Start   string     `json:"start"` // template | tool-empty | link-missing | aged
	P       int        `json:"p"`
	Sched   SchedSpec  `json:"sched"`
	Crashes []c18Crash `json:"crashes"`
	LoseGC  int        `json:"lose_gocache,omitempty"` // after the first kill, damage this many of the newest GOCACHE files
	LoseHow string     `json:"lose_how,omitempty"`
}

// prepare the start state of a fresh world.
func c18Cfg(start string) world.Config {
	if start == "debugdir" {
		return cfgDebugDir
	}
	return cfgDefault
}

func c18Start(e *Env, start string) (*world.World, error) {
	tmpl, err := e.Template(c18Cfg(start))
	if err != nil {
		return nil, err
	}
	w, err := world.New(e.Bin, "c18")
	if err != nil {
		return nil, err
	}
	if err := w.Load(tmpl); err != nil {
		w.Close()
		return nil, err
	}
	switch start {
	case "template", "debugdir":
	case "tool-empty":
		os.RemoveAll(filepath.Join(w.GarbleCache, "tool"))
	case "link-missing":
		os.Remove(filepath.Join(w.GarbleCache, "tool", "link"))
	case "aged":
		ageTree(filepath.Join(w.GarbleCache, "build"), 7)
	default:
		w.Close()
		return nil, fmt.Errorf("unknown start state %q", start)
	}
	return w, nil
}

type c18Rec struct {
	Steps []engine.Step
}

func (c c18) record(e *Env, prog, start string) (*c18Rec, error) {
	v, err := e.Memo("c18rec:"+prog+":"+start, func() (any, error) {
		w, err := c18Start(e, start)
		if err != nil {
			return nil, err
		}
		defer w.Close()
		src, err := PrepareSource(w, prog, prog, nil)
		if err != nil {
			return nil, err
		}
		out := filepath.Join(w.Out, "bin")
		cl := w.Client("A", src, cfgDefault, "build", "-p=1", "-o", out, ".")
		s, err := runSim(w, []*engine.Client{cl}, engine.Canonical{}, true, nil, nil)
		if err != nil {
			return nil, err
		}
		if cl.ExitCode != 0 {
			return nil, fmt.Errorf("c18: uninterrupted build (%s, %s) failed: %s", prog, start, shortErr(cl.Stderr.String()))
		}
		ref, err := e.Reference(RefSpec{Prog: prog, Cfg: cfgDefault})
		if err != nil {
			return nil, err
		}
		if got := world.HashFile(out); got != ref.Sha {
			return nil, fmt.Errorf("c18: uninterrupted gated build differs from the isolated reference (%s vs %s): see C03", got[:12], ref.Sha[:12])
		}
		return &c18Rec{Steps: s.Steps}, nil
	})
	if err != nil {
		return nil, err
	}
	return v.(*c18Rec), nil
}

func mutating(op string) bool {
	switch op {
	case "openw", "write", "writefile", "close", "chtimes", "rename", "mkdirall", "mkdir", "mkdirtemp", "createtemp",
		"remove", "removeall", "ftruncate", "truncate", "exec", "exec-done", "exec-start", "funlock", "flock":
		return true
	}
	return false
}

func (c c18) Generate(e *Env) ([]*Case, error) {
	rng := rand.New(rand.NewSource(e.Seed))
	thorough := e.Tier == "thorough"
	var cases []*Case
	add := func(p c18Params) {
		if p.P == 0 {
			p.P = 1
		}
		if p.Sched.Kind == "" {
			p.Sched.Kind = "canonical"
		}
		cases = append(cases, &Case{Property: "C18", Kind: "crash", Seed: e.Seed, Params: mustJSON(p)})
	}
	crashAt := func(rec *c18Rec, k int, kind, cut string) c18Crash {
		st := rec.Steps[k]
		return c18Crash{Step: k, Kind: kind, Cut: cut, Site: st.Site, Op: st.Op, Proc: st.Proc}
	}
	prog := "p1"
	cuts := []string{"0", "1", "half", "m1"}

	// --- start state "template": every event index (thorough) / stratified sample (quick)
	rec, err := c.record(e, prog, "template")
	if err != nil {
		return nil, err
	}
	n := len(rec.Steps)
	var idxs []int
	if thorough {
		for k := 0; k < n; k++ {
			idxs = append(idxs, k)
		}
	} else {
		var mut, other []int
		for k, st := range rec.Steps {
			if mutating(st.Op) {
				mut = append(mut, k)
			} else {
				other = append(other, k)
			}
		}
		rng.Shuffle(len(mut), func(i, j int) { mut[i], mut[j] = mut[j], mut[i] })
		rng.Shuffle(len(other), func(i, j int) { other[i], other[j] = other[j], other[i] })
		idxs = append(idxs, mut[:min(22, len(mut))]...)
		idxs = append(idxs, other[:min(6, len(other))]...)
		sort.Ints(idxs)
	}
	for _, k := range idxs {
		add(c18Params{Prog: prog, Start: "template", Crashes: []c18Crash{crashAt(rec, k, "kill", "")}})
	}
	// torn writes at every write-type event (thorough: all four cuts; quick: one seeded cut for a sample)
	var writes []int
	for k, st := range rec.Steps {
		if st.Op == "write" || st.Op == "writefile" {
			writes = append(writes, k)
		}
	}
	if !thorough {
		rng.Shuffle(len(writes), func(i, j int) { writes[i], writes[j] = writes[j], writes[i] })
		writes = writes[:min(8, len(writes))]
	}
	for _, k := range writes {
		cs := cuts
		if !thorough {
			cs = []string{cuts[rng.Intn(4)]}
		}
		for _, cut := range cs {
			add(c18Params{Prog: prog, Start: "template", Crashes: []c18Crash{crashAt(rec, k, "torn", cut)}})
		}
	}
	// loss of cmd/go's own in-flight GOCACHE writes after a kill
	nl := 4
	if thorough {
		nl = 12
	}
	for i := 0; i < nl; i++ {
		k := rng.Intn(n)
		add(c18Params{Prog: prog, Start: "template", Crashes: []c18Crash{crashAt(rec, k, "kill", "")}, LoseGC: 1 + rng.Intn(3), LoseHow: c07Modes[rng.Intn(5)]})
	}
	// repeated crashes: second and third kill during the reruns
	nr := 3
	if thorough {
		nr = 10
	}
	for i := 0; i < nr; i++ {
		cr := []c18Crash{crashAt(rec, rng.Intn(n), "kill", ""), {Step: rng.Intn(n), Kind: "kill"}}
		if rng.Intn(2) == 0 {
			cr = append(cr, c18Crash{Step: rng.Intn(n), Kind: "kill"})
		}
		add(c18Params{Prog: prog, Start: "template", Crashes: cr})
	}
	// crash points under non-canonical schedules at -p 4
	np := 4
	if thorough {
		np = 16
	}
	for i := 0; i < np; i++ {
		add(c18Params{Prog: prog, Start: "template", P: 4, Sched: SchedSpec{Kind: []string{"random", "sticky", "pct"}[rng.Intn(3)], Seed: rng.Int63()},
			Crashes: []c18Crash{{Step: rng.Intn(n), Kind: "kill"}}})
	}

	// --- start states in which the linker is patched and built: the window of the link process
	for _, start := range []string{"tool-empty", "link-missing"} {
		r2, err := c.record(e, prog, start)
		if err != nil {
			return nil, err
		}
		var win []int
		for k, st := range r2.Steps {
			if strings.HasPrefix(st.Proc, "A/link:") && !strings.Contains(st.Proc, ":V#") {
				win = append(win, k)
			}
		}
		sel := win
		if !thorough {
			var m []int
			for _, k := range win {
				if mutating(r2.Steps[k].Op) {
					m = append(m, k)
				}
			}
			rng.Shuffle(len(m), func(i, j int) { m[i], m[j] = m[j], m[i] })
			sel = m[:min(5, len(m))]
			sort.Ints(sel)
		}
		for _, k := range sel {
			add(c18Params{Prog: prog, Start: start, Crashes: []c18Crash{crashAt(r2, k, "kill", "")}})
		}
		// kill while go build -o writes the linker: emulated at the exec-done of the linker build
		for k, st := range r2.Steps {
			if st.Op == "exec-done" && strings.Contains(st.Site, "buildLinker") {
				cs := cuts
				if !thorough {
					cs = []string{"half", cuts[rng.Intn(4)]}
				}
				for _, cut := range cs {
					add(c18Params{Prog: prog, Start: start, Crashes: []c18Crash{crashAt(r2, k, "kill-trunc-link", cut)}})
				}
			}
		}
	}
	// --- aged cache: the trim at the end really deletes; crash inside the trim window
	r3, err := c.record(e, prog, "aged")
	if err != nil {
		return nil, err
	}
	var trim []int
	seenTrim := false
	for k, st := range r3.Steps {
		if strings.HasPrefix(st.Proc, "A/top") && strings.Contains(st.Site, "Trim") || (seenTrim && strings.HasPrefix(st.Proc, "A/top")) {
			seenTrim = true
			trim = append(trim, k)
		}
		if strings.Contains(st.Path, "trim.txt") {
			seenTrim = true
		}
	}
	if !thorough && len(trim) > 6 {
		rng.Shuffle(len(trim), func(i, j int) { trim[i], trim[j] = trim[j], trim[i] })
		trim = trim[:6]
		sort.Ints(trim)
	}
	for _, k := range trim {
		add(c18Params{Prog: prog, Start: "aged", Crashes: []c18Crash{crashAt(r3, k, "kill", "")}})
	}
	// --- -debugdir builds (full -a rebuilds of several thousand events): the debug
	// dir is durable state too. Crash after it has begun to fill; the rerun runs
	// outside the gate.
	ddPoints := []int{150, 900}
	if thorough {
		ddPoints = []int{40, 150, 400, 900, 1800, 3000, 4500}
		for i := 0; i < 5; i++ {
			ddPoints = append(ddPoints, 30+rng.Intn(5000))
		}
	}
	for _, k := range ddPoints {
		add(c18Params{Prog: prog, Start: "debugdir", Crashes: []c18Crash{{Step: k, Kind: "kill"}}})
	}
	e.SetExtra("exhaustive", thorough)
	e.SetExtra("exhaustive_note", "thorough: every gated event index of the canonical template-start build, every index of the link process when the linker must be built, every index of the trim window of an aged cache; schedules, repeated crashes and GOCACHE loss are sampled")
	e.SetExtra("canonical_build_events", n)
	e.SetExtra("fault_kinds_expected", []string{"kill", "torn"})
	return cases, nil
}

func cutBytes(cut string, size int64) int64 {
	switch cut {
	case "0":
		return 0
	case "1":
		return min(1, size)
	case "half":
		return size / 2
	case "m1":
		if size > 0 {
			return size - 1
		}
	}
	return 0
}

func (c c18) Run(e *Env, cs *Case) (*Outcome, error) {
	var p c18Params
	if err := json.Unmarshal(cs.Params, &p); err != nil {
		return nil, err
	}
	w, err := c18Start(e, p.Start)
	if err != nil {
		return nil, err
	}
	defer w.Close()
	src, err := PrepareSource(w, p.Prog, p.Prog, nil)
	if err != nil {
		return nil, err
	}
	out := filepath.Join(w.Out, "bin")
	o := &Outcome{Faults: map[string]int{}, Probes: map[string]int{}, Traces: map[string][]engine.Step{}}
	serial := p.P <= 1
	var keyParts []string
	base := 0
	if rec, err := c.record(e, p.Prog, "template"); err == nil {
		base = len(rec.Steps)
	}
	realKills := 0
	for ci, cr := range p.Crashes {
		label := fmt.Sprintf("crash%d", ci)
		cl := w.Client("A", src, c18Cfg(p.Start), "build", fmt.Sprintf("-p=%d", p.P), "-o", out, ".")
		act := engine.Action{Kind: "kill"}
		var tornSize int64
		pol := &engine.WithFaults{Sched: p.Sched.Policy(), AtStep: map[int]engine.Action{}}
		if cr.Kind == "torn" {
			// The cut is relative to the size announced by the event: decide when we see it.
			pol.Decide = func(s *engine.Sim, pr *engine.Proc, ev *engine.Msg) (engine.Action, bool) {
				if len(s.Steps) == cr.Step {
					tornSize = ev.N
					if ev.Op == "write" || ev.Op == "writefile" {
						return engine.Action{Kind: "torn", N: cutBytes(cr.Cut, ev.N)}, true
					}
					return engine.Action{Kind: "kill"}, true
				}
				return engine.Action{}, false
			}
		} else {
			pol.AtStep[cr.Step] = act
		}
		_ = tornSize
		var linkPath string
		trace := cs.Traces[label]
		if p.Start == "debugdir" {
			// Full -a rebuilds of several thousand events are not event-for-event
			// identical between executions (observed twice; not investigated further);
			// the crash point is the event index, re-applied rather than enforced from
			// the recorded trace.
			trace = nil
		}
		s, err := runSim(w, []*engine.Client{cl}, pol, serial, trace, nil)
		if err != nil {
			return nil, err
		}
		o.SimRuns++
		o.Steps += len(s.Steps)
		o.Choice += s.Stats.ChoicePoints
		o.Traces[label] = s.Steps
		if cl.Killed {
			realKills++
			o.Faults[map[string]string{"kill": "kill", "torn": "torn", "kill-trunc-link": "kill"}[cr.Kind]]++
			last := s.Steps[len(s.Steps)-1]
			if ci == 0 {
				keyParts = append(keyParts, fmt.Sprintf("%s@%s[%s]%s", cr.Kind, last.Site, last.Op, cr.Cut))
			}
			if cr.Kind == "kill-trunc-link" {
				// The file `go build -o` was writing, as declared on its command line.
				linkPath = filepath.Join(w.GarbleCache, "tool", "link")
				for i := len(s.Log) - 1; i >= 0; i-- {
					le := s.Log[i]
					if le.Proc == last.Proc && le.Msg.T == "ev" && le.Msg.Op == "exec" {
						for j, a := range le.Msg.Args {
							if a == "-o" && j+1 < len(le.Msg.Args) {
								linkPath = le.Msg.Args[j+1]
							}
						}
						break
					}
				}
				if fi, err := os.Stat(linkPath); err == nil {
					os.Truncate(linkPath, cutBytes(cr.Cut, fi.Size()))
					o.Faults["trunc-link"]++
				}
			}
			if strings.Contains(last.Path, "/tool/") {
				o.Probes["killed-inside-linker-window"]++
			}
			if strings.Contains(last.Site, "cache.Cache") {
				o.Probes["killed-inside-cache-put-or-get"]++
			}
			if strings.Contains(last.Site, "Trim") || strings.Contains(last.Path, "trim.txt") {
				o.Probes["killed-inside-trim"]++
			}
		} else {
			o.Probes["build-finished-before-crash-point"]++
			if cl.ExitCode != 0 {
				o.Violation = &Violation{Class: "rerun-failed", Key: "rerun-failed/" + strings.Join(keyParts, "+"),
					Detail: fmt.Sprintf("build %d (no crash reached) exited %d after earlier crashes %v:\n%s", ci, cl.ExitCode, keyParts, shortErr(cl.Stderr.String()))}
				return c.finish(o, cs, p, realKills), nil
			}
		}
		if ci == 0 && p.LoseGC > 0 && cl.Killed {
			// cmd/go's own in-flight writes: damage the newest GOCACHE files.
			type nf struct {
				p string
				t int64
			}
			var files []nf
			for _, f := range world.ListFiles(w.GoCache) {
				if w.TmplFiles[f] {
					continue
				}
				if fi, err := os.Stat(filepath.Join(w.GoCache, f)); err == nil {
					files = append(files, nf{f, fi.ModTime().UnixNano()})
				}
			}
			sort.Slice(files, func(i, j int) bool {
				if files[i].t != files[j].t {
					return files[i].t > files[j].t
				}
				return files[i].p < files[j].p
			})
			for i := 0; i < p.LoseGC && i < len(files); i++ {
				if damage(filepath.Join(w.GoCache, files[i].p), p.LoseHow) == nil {
					o.Faults["gocache-"+p.LoseHow]++
				}
			}
			keyParts = append(keyParts, "lose-gocache:"+p.LoseHow)
		}
	}
	if lo := leftovers(w.Tmp); len(lo) > 0 {
		o.Probes["leftover-shared-dir-after-kill"]++
	}
	// Rerun, fault-free.
	cl := w.Client("A", src, c18Cfg(p.Start), "build", "-p=1", "-o", out, ".")
	var s *engine.Sim
	if p.Start == "debugdir" {
		// Every -debugdir build is a full -a rebuild: the rerun runs outside the gate.
		_, se, code := w.RunPlain(src, c18Cfg(p.Start), "build", "-o", out, ".")
		cl.ExitCode = code
		cl.Stderr.WriteString(se)
		s = &engine.Sim{}
	} else {
		s, err = runSim(w, []*engine.Client{cl}, engine.Canonical{}, true, nil, nil)
		if err != nil {
			return nil, err
		}
	}
	o.SimRuns++
	o.Steps += len(s.Steps)
	key := strings.Join(keyParts, "+")
	if key == "" {
		key = "no-kill"
	}
	key = p.Start + "/" + key
	viol := func(class, detail string) *Outcome {
		o.Violation = &Violation{Class: class, Key: class + "/" + key, Detail: detail}
		return c.finish(o, cs, p, realKills)
	}
	if s.Deadlock {
		return viol("rerun-deadlock", "the rerun cannot make progress"), nil
	}
	if cl.ExitCode != 0 {
		return viol("rerun-failed", fmt.Sprintf("rerun after %s exited %d:\n%s", key, cl.ExitCode, shortErr(cl.Stderr.String()))), nil
	}
	ref, err := e.Reference(RefSpec{Prog: p.Prog, Cfg: c18Cfg(p.Start), DebugDir: p.Start == "debugdir"})
	if err != nil {
		return nil, err
	}
	if got := world.HashFile(out); got != ref.Sha {
		return viol("binary-differs", fmt.Sprintf("binary of the rerun after %s is %s, uninterrupted reference is %s", key, got[:16], ref.Sha[:16])), nil
	}
	if p.Start == "debugdir" {
		deps, err := e.Deps(p.Prog, nil)
		if err != nil {
			return nil, err
		}
		if sum, n, _ := DebugDirSum(filepath.Join(w.Out, "debugdir"), deps); sum != ref.DebugSum {
			return viol("debugdir-differs", fmt.Sprintf("-debugdir tree of the rerun has %d files and differs from the uninterrupted reference (%d files)", n, ref.DebugN)), nil
		}
	}
	plain, err := e.Plain(p.Prog, nil, nil, "")
	if err != nil {
		return nil, err
	}
	if so, rc := RunBinary(out); so != plain.Stdout || rc != plain.RunExit {
		return viol("behaviour-differs", fmt.Sprintf("program of the rerun prints:\n%s\nplain build prints:\n%s", firstLines(so, 10), firstLines(plain.Stdout, 10))), nil
	}
	if base > 0 && p.Start == "template" && len(s.Steps) > 3*base {
		return viol("rerun-not-bounded", fmt.Sprintf("rerun needed %d events, an uninterrupted build needs %d", len(s.Steps), base)), nil
	}
	return c.finish(o, cs, p, realKills), nil
}

func (c c18) finish(o *Outcome, cs *Case, p c18Params, kills int) *Outcome {
	o.NonTrivial = kills > 0
	// Distinctness ignores the informational fields.
	q := p
	q.Crashes = nil
	for _, cr := range p.Crashes {
		q.Crashes = append(q.Crashes, c18Crash{Step: cr.Step, Kind: cr.Kind, Cut: cr.Cut})
	}
	o.Fingerprint = string(mustJSON(q))
	if tr, ok := o.Traces["crash0"]; ok {
		o.SchedHash = schedHash(tr)
	}
	o.Sample = map[string]any{"params": p, "kills": kills}
	return o
}

func (c c18) Shrink(cs *Case) []*Case {
	var p c18Params
	if json.Unmarshal(cs.Params, &p) != nil {
		return nil
	}
	var out []*Case
	mk := func(q c18Params) {
		nc := *cs
		nc.Params = mustJSON(q)
		nc.Traces = nil
		out = append(out, &nc)
	}
	if len(p.Crashes) > 1 {
		for i := range p.Crashes {
			q := p
			q.Crashes = append(append([]c18Crash{}, p.Crashes[:i]...), p.Crashes[i+1:]...)
			mk(q)
		}
	}
	if p.LoseGC > 0 {
		q := p
		q.LoseGC = 0
		mk(q)
	}
	if p.P > 1 {
		q := p
		q.P = 1
		q.Sched = SchedSpec{Kind: "canonical"}
		mk(q)
	}
	for i, cr := range p.Crashes {
		if cr.Kind == "torn" {
			q := p
			q.Crashes = append([]c18Crash{}, p.Crashes...)
			q.Crashes[i].Kind = "kill"
			q.Crashes[i].Cut = ""
			mk(q)
		}
	}
	return out
}
