// Package cachenote brackets garble's calls into its content-addressed cache
// with notes for the simulator's history: which key was looked up or stored,
// and the hash of the bytes involved. It changes nothing about the calls.
package cachenote

import (
	"crypto/sha256"
	"encoding/hex"
	"os"

	"github.com/rogpeppe/go-internal/cache"
	"verif.local/verifrt"
)

func sum(b []byte) string {
	s := sha256.Sum256(b)
	return hex.EncodeToString(s[:8])
}

func Cache_GetFile(site string, c *cache.Cache, id cache.ActionID) (string, cache.Entry, error) {
	file, e, err := c.GetFile(id)
	if verifrt.Active() {
		m := verifrt.Msg{Site: site, Op: "cache-get", Key: hex.EncodeToString(id[:8])}
		if err != nil {
			m.Err = "miss"
		} else if data, rerr := os.ReadFile(file); rerr == nil {
			m.Sum = sum(data)
			m.N = int64(len(data))
		} else {
			m.Err = "unreadable"
		}
		verifrt.Note(m)
	}
	return file, e, err
}

func Cache_PutBytes(site string, c *cache.Cache, id cache.ActionID, data []byte) error {
	if verifrt.Active() {
		verifrt.Note(verifrt.Msg{Site: site, Op: "cache-put", Key: hex.EncodeToString(id[:8]), Sum: sum(data), N: int64(len(data))})
	}
	err := c.PutBytes(id, data)
	if verifrt.Active() {
		m := verifrt.Msg{Site: site, Op: "cache-put-done", Key: hex.EncodeToString(id[:8])}
		if err != nil {
			m.Err = err.Error()
		}
		verifrt.Note(m)
	}
	return err
}

func Cache_Trim(site string, c *cache.Cache) error {
	if verifrt.Active() {
		verifrt.Note(verifrt.Msg{Site: site, Op: "cache-trim"})
	}
	err := c.Trim()
	if verifrt.Active() {
		m := verifrt.Msg{Site: site, Op: "cache-trim-done"}
		if err != nil {
			m.Err = err.Error()
		}
		verifrt.Note(m)
	}
	return err
}
