#!/bin/bash
# usage: runchecks.sh <tier> <id>...   (sequential; logs under ${VERIF_LOGDIR:-/root/.cache/verif-garble/logs})
cd "$(dirname "$0")"
tier="$1"; shift
L="${VERIF_LOGDIR:-/root/.cache/verif-garble/logs}"; mkdir -p "$L"
for id in "$@"; do
  s=$(date +%s)
  ./check "$id" "$tier" > "$L/$id.$tier.out" 2> "$L/$id.$tier.err"
  rc=$?
  echo "$id $tier exit=$rc $(( $(date +%s) - s ))s" | tee -a "$L/summary.txt"
  # keep a copy of thorough-tier evidence (evidence/<id>.json is rewritten by every run)
  if [ "$tier" = thorough ] && [ -f "evidence/$id.json" ]; then mkdir -p evidence/thorough && cp "evidence/$id.json" "evidence/thorough/$id.json"; fi
done
