module example.test/p6

go 1.26
