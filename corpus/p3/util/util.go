// Package util holds reflecting helpers at several call depths.
package util

import (
	"encoding/json"
	"fmt"
	"reflect"
	"strings"
)

// Names lists the type name and field names of v.
func Names(v any) string {
	t := reflect.TypeOf(v)
	for t.Kind() == reflect.Pointer || t.Kind() == reflect.Slice || t.Kind() == reflect.Array || t.Kind() == reflect.Map {
		t = t.Elem()
	}
	var sb strings.Builder
	name := t.Name()
	if i := strings.IndexByte(name, '['); i >= 0 {
		name = name[:i] // type arguments spell out an import path
	}
	sb.WriteString(name)
	if t.Kind() == reflect.Struct {
		sb.WriteByte('{')
		for i := 0; i < t.NumField(); i++ {
			if i > 0 {
				sb.WriteByte(',')
			}
			f := t.Field(i)
			sb.WriteString(f.Name)
			ft := f.Type
			for ft.Kind() == reflect.Pointer || ft.Kind() == reflect.Slice {
				ft = ft.Elem()
			}
			if ft.Kind() == reflect.Struct && ft.Name() != "" {
				sb.WriteString(":" + ft.Name())
			}
		}
		sb.WriteByte('}')
	}
	return sb.String()
}

// One forwards to Names (one helper).
func One(v any) string { return Names(v) }

// Two forwards to One (two helpers).
func Two(v any) string { return One(v) }

// Three forwards to Two (three helpers).
func Three(v any) string { return Two(v) }

// Var takes variadic values.
func Var(vs ...any) string {
	var parts []string
	for _, v := range vs {
		parts = append(parts, Names(v))
	}
	return strings.Join(parts, "+")
}

// JSON marshals v.
func JSON(v any) string {
	b, err := json.Marshal(v)
	if err != nil {
		return "err:" + err.Error()
	}
	return string(b)
}

// Namer is implemented by reflecting and non-reflecting types.
type Namer interface{ Describe(v any) string }

type ReflectNamer struct{}

func (ReflectNamer) Describe(v any) string { return Names(v) }

// Generic reflects on a type parameter value.
func Generic[T any](v T) string { return Names(v) }

// Lookup finds a field by its original name.
func Lookup(v any, field string) string {
	rv := reflect.ValueOf(v)
	f := rv.FieldByName(field)
	if !f.IsValid() {
		return "missing"
	}
	return fmt.Sprint(f.Interface())
}
