// Package asmpkg has functions implemented in assembly and a struct whose
// field offsets the assembly reads through go_asm.h.
package asmpkg

import "reflect"

// Args holds arguments for the assembly function; go_asm.h gets Args_first etc.
type Args struct {
	first, fir, first2 int64
}

func addArgs(a *Args) int64
func argsSize() int64
func add32(x, y int32) int32

// Counter is modified from assembly.
var counter = [2]uint64{10, 20}

func bump()

func Sum(a, b, c int64) int64 { return addArgs(&Args{first: a, fir: b, first2: c}) }
func Size() int64             { return argsSize() }
func Add(x, y int32) int32    { return add32(x, y) }
func Bump() uint64            { bump(); return counter[0] + counter[1] }

// Shape is reflected here so the package owns a reflection cache entry too.
type Shape struct{ Width, Height int }

func ShapeName() string { return reflect.TypeOf(Shape{}).Name() + "." + reflect.TypeOf(Shape{}).Field(1).Name }
