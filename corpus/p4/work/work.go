// Package work holds a function obfuscated with trash blocks, whose generation
// picks candidates out of Go maps.
package work

import (
	"os"
	"strings"
)

var Marker = "p4"

//garble:controlflow flatten_passes=1 trash_blocks=6
func Trashed(n int) int {
	if n < 0 {
		return -n
	}
	if n%5 == 0 {
		return n / 5
	}
	return n + len(strings.Repeat("x", n%3)) + len(os.Args[:0])
}
