package mid2

import (
	"encoding/json"

	"example.test/p1/conf"
	"example.test/p1/leaf"
)

// Rec is marshalled to JSON; field names must survive.
type Rec struct {
	ID    int
	Item  leaf.Leaf
	Extra *Opt `json:",omitempty"`
}

type Opt struct {
	Level int
	Label string
}

func Encode(id int, l leaf.Leaf) string {
	b, err := json.Marshal(Rec{ID: id, Item: l, Extra: &Opt{Level: id * 2, Label: l.Name}})
	if err != nil {
		return "error: " + err.Error()
	}
	return string(b)
}

// Limit exposes a value of the call-free package conf.
func Limit() int { return conf.Limit + int(conf.Default) }

func Decode(s string) (Rec, error) {
	var r Rec
	err := json.Unmarshal([]byte(s), &r)
	return r, err
}
