// Package leaf sits at the bottom of the import diamond.
package leaf

import (
	"reflect"
	"strings"
)

// Leaf is reflected on by packages above this one.
type Leaf struct {
	Name  string
	Count int
	inner hidden
}

type hidden struct {
	Secret string
}

// Deep is only ever reflected on by package top, through mid1.MakeDeep.
type Deep struct {
	DeepName string
	DeepRank int
}

// Plain never reaches reflection.
type Plain struct {
	Alpha string
	Beta  int
}

// Describe is a reflection helper used through several layers.
func Describe(v any) string {
	t := reflect.TypeOf(v)
	if t.Kind() == reflect.Pointer {
		t = t.Elem()
	}
	var sb strings.Builder
	sb.WriteString(t.Name())
	if t.Kind() == reflect.Struct {
		sb.WriteString("{")
		for i := 0; i < t.NumField(); i++ {
			if i > 0 {
				sb.WriteString(",")
			}
			sb.WriteString(t.Field(i).Name)
		}
		sb.WriteString("}")
	}
	return sb.String()
}

func New(name string, n int) Leaf {
	return Leaf{Name: name, Count: n, inner: hidden{Secret: "s-" + name}}
}

func (p Plain) Sum() int { return len(p.Alpha) + p.Beta }
