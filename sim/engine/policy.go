package engine

import (
	"fmt"
	"math/rand"
)

// Canonical always releases the enabled process with the lowest identity.
type Canonical struct{}

func (Canonical) Pick(s *Sim, en []*Proc) (int, Action, error) { return 0, Go(), nil }

// Random releases a uniformly chosen enabled process.
type Random struct{ R *rand.Rand }

func (r Random) Pick(s *Sim, en []*Proc) (int, Action, error) {
	if len(en) == 1 {
		return 0, Go(), nil
	}
	return r.R.Intn(len(en)), Go(), nil
}

// Sticky keeps running the process it released last with probability P.
type Sticky struct {
	R    *rand.Rand
	P    float64
	last string
}

func (k *Sticky) Pick(s *Sim, en []*Proc) (int, Action, error) {
	if len(en) == 1 {
		k.last = en[0].ID
		return 0, Go(), nil
	}
	stay := k.R.Float64() < k.P
	if stay {
		for i, p := range en {
			if p.ID == k.last {
				return i, Go(), nil
			}
		}
	}
	i := k.R.Intn(len(en))
	k.last = en[i].ID
	return i, Go(), nil
}

// PCT assigns each process a random priority on first sight and runs the
// highest-priority enabled one; at D random step numbers the running
// process's priority drops below everything else.
type PCT struct {
	R       *rand.Rand
	Changes map[int]bool // step numbers at which the priority of the chosen process is lowered
	prio    map[string]float64
	low     float64
}

func NewPCT(r *rand.Rand, d, horizon int) *PCT {
	p := &PCT{R: r, Changes: map[int]bool{}, prio: map[string]float64{}}
	for i := 0; i < d; i++ {
		p.Changes[r.Intn(horizon)] = true
	}
	return p
}

func (k *PCT) Pick(s *Sim, en []*Proc) (int, Action, error) {
	best, bi := -1e18, 0
	for i, p := range en {
		pr, ok := k.prio[p.ID]
		if !ok {
			pr = 1 + k.R.Float64()
			k.prio[p.ID] = pr
		}
		if pr > best {
			best, bi = pr, i
		}
	}
	if k.Changes[len(s.Steps)] {
		k.low -= 1
		k.prio[en[bi].ID] = k.low
	}
	return bi, Go(), nil
}

// WithFaults wraps a scheduling policy with a fault plan.
type WithFaults struct {
	Sched Policy
	// AtStep: global step number -> action (used with serial, canonical runs).
	AtStep map[int]Action
	// Decide, if set, is asked for every released event after Sched chose it.
	Decide func(s *Sim, p *Proc, ev *Msg) (Action, bool)
}

func (w *WithFaults) Pick(s *Sim, en []*Proc) (int, Action, error) {
	i, a, err := w.Sched.Pick(s, en)
	if err != nil {
		return i, a, err
	}
	if act, ok := w.AtStep[len(s.Steps)]; ok {
		return i, act, nil
	}
	if w.Decide != nil {
		if act, ok := w.Decide(s, en[i], en[i].Pending); ok {
			return i, act, nil
		}
	}
	return i, a, nil
}

// Replay enforces a recorded trace: at each decision the named process must be
// parked at the named event.
type Replay struct {
	Steps []Step
	// After the recorded steps are exhausted the run continues canonically.
}

func (r *Replay) Pick(s *Sim, en []*Proc) (int, Action, error) {
	n := len(s.Steps)
	if n >= len(r.Steps) {
		return 0, Go(), nil
	}
	want := r.Steps[n]
	for i, p := range en {
		if p.ID == want.Proc && p.Seq == want.Seq {
			if p.Pending.Op != want.Op || p.Pending.Site != want.Site {
				return 0, Action{}, infra("replay diverged at step %d: %s seq %d is at %s %s, trace has %s %s", n, p.ID, p.Seq, p.Pending.Op, p.Pending.Site, want.Op, want.Site)
			}
			return i, want.Act, nil
		}
	}
	ids := ""
	for _, p := range en {
		ids += fmt.Sprintf(" %s@%d", p.ID, p.Seq)
	}
	return 0, Action{}, infra("replay diverged at step %d: %s seq %d not enabled (enabled:%s)", n, want.Proc, want.Seq, ids)
}
