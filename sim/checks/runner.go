package checks

import (
	"encoding/json"
	"errors"
	"fmt"
	"os"
	"path/filepath"
	"runtime"
	"sort"
	"strings"
	"sync"
	"time"

	"verif.local/sim/engine"
	"verif.local/sim/simbuild"
	"verif.local/sim/world"
)

// KnownFindings is /verif/known_findings.json.
type KnownFindings struct {
	Findings []struct {
		Property string `json:"property"`
		Key      string `json:"key"`
		What     string `json:"what"`
	} `json:"findings"`
	Fixed []string `json:"fixed"`
}

func loadKnown() (*KnownFindings, error) {
	k := &KnownFindings{}
	b, err := os.ReadFile(filepath.Join(simbuild.VerifDir(), "known_findings.json"))
	if err != nil {
		if os.IsNotExist(err) {
			return k, nil
		}
		return nil, err
	}
	if err := json.Unmarshal(b, k); err != nil {
		return nil, fmt.Errorf("known_findings.json: %v", err)
	}
	return k, nil
}

func (k *KnownFindings) match(prop string, v *Violation) (string, bool) {
	for _, f := range k.Findings {
		if f.Property == prop && f.Key == v.Key {
			return f.What, true
		}
	}
	return "", false
}

type result struct {
	c   *Case
	o   *Outcome
	err error
	dur time.Duration
}

// Registry of checks by property id.
var Registry = map[string]func() Check{}

func tierBudget(tier string) (minimise int) {
	if tier == "thorough" {
		return 60
	}
	return 12
}

// violations returns every violation an outcome carries.
func violations(o *Outcome) []*Violation {
	if o == nil || o.Violation == nil {
		return nil
	}
	return append([]*Violation{o.Violation}, o.More...)
}

func hasKey(o *Outcome, key string) *Violation {
	for _, v := range violations(o) {
		if v.Key == key {
			return v
		}
	}
	return nil
}

// Main runs check id at tier and returns the process exit code.
func Main(id, tier string, seed int64, replayPath string) int {
	mk, ok := Registry[id]
	if !ok {
		fmt.Fprintf(os.Stderr, "no check for %s\n", id)
		return 2
	}
	chk := mk()
	start := time.Now()
	// VERIF_REPO lets seeded-change evaluations point the check at a scratch
	// worktree; the registered commands never set it.
	repo := "/repo"
	if r := os.Getenv("VERIF_REPO"); r != "" {
		repo = r
		fmt.Fprintf(os.Stderr, "NOTE: building garble-sim from %s instead of /repo\n", r)
	}
	res, err := simbuild.Build(repo, os.Stderr)
	if err != nil {
		fmt.Fprintf(os.Stderr, "INFRA: cannot build garble-sim from /repo: %v\n", err)
		return 2
	}
	world.PruneTemplates(res.Key, 40<<30)
	env := &Env{Bin: res.Bin, Key: res.Key, Tier: tier, Seed: seed, Workers: runtime.NumCPU(), Repo: repo}
	if env.Workers > 6 {
		// Measured: simulated builds stop scaling beyond ~5 concurrent ones on this
		// VM (cmd/go itself is multi-threaded); more workers only add latency.
		env.Workers = 6
	}
	if w := os.Getenv("VERIF_WORKERS"); w != "" {
		fmt.Sscan(w, &env.Workers)
	}
	defer env.Close()
	if cleanup, err := world.SnapshotCorpus(); err != nil {
		fmt.Fprintf(os.Stderr, "INFRA: corpus snapshot: %v\n", err)
		return 2
	} else {
		env.OnClose(cleanup)
	}
	env.ClockSites, env.GlobalRand = res.Report.ClockSites, res.Report.GlobalRand
	env.SetExtra("instrumented_call_sites", res.Report.Sites)
	env.SetExtra("unrouted_references", res.Report.Unrouted)
	env.SetExtra("garble_sim_key", res.Key)
	if err := chk.Prepare(env); err != nil {
		fmt.Fprintf(os.Stderr, "INFRA: prepare: %v\n", err)
		return 2
	}
	known, err := loadKnown()
	if err != nil {
		fmt.Fprintf(os.Stderr, "INFRA: %v\n", err)
		return 2
	}

	if replayPath != "" {
		return replayOne(chk, env, known, replayPath)
	}

	cases, err := chk.Generate(env)
	if err != nil {
		fmt.Fprintf(os.Stderr, "INFRA: generate: %v\n", err)
		return 2
	}
	if only := os.Getenv("VERIF_ONLY"); only != "" {
		// Debugging aid: keep only the cases whose parameters contain the substring.
		var kept []*Case
		for _, c := range cases {
			if strings.Contains(string(c.Params), only) {
				kept = append(kept, c)
			}
		}
		cases = kept
	}
	fmt.Fprintf(os.Stderr, "%s %s seed=%d: %d cases, %d workers, garble-sim %s\n", id, tier, seed, len(cases), env.Workers, res.Key)
	results := runAll(chk, env, cases)

	// Aggregate.
	ev := newEvidence(chk, tier, seed)
	var infraErrs []string
	type vio struct {
		c *Case
		o *Outcome
		v *Violation
	}
	var vios []vio
	for _, r := range results {
		if r.err != nil {
			infraErrs = append(infraErrs, r.err.Error())
			continue
		}
		ev.add(r)
		for _, v := range violations(r.o) {
			vios = append(vios, vio{r.c, r.o, v})
		}
	}
	exit := 0
	if len(infraErrs) > 0 {
		sort.Strings(infraErrs)
		for i, e := range infraErrs {
			if i < 5 {
				fmt.Fprintf(os.Stderr, "INFRA: %s\n", e)
			}
		}
		fmt.Fprintf(os.Stderr, "INFRA: %d cases failed for infrastructure reasons\n", len(infraErrs))
		exit = 2
	}

	// Known findings first, then distinct new violations (one report per key).
	seenKnown := map[string]bool{}
	seenNew := map[string]bool{}
	reported := map[string]bool{}
	newCount := 0
	for _, v := range vios {
		if what, ok := known.match(id, v.v); ok {
			if !seenKnown[v.v.Key] {
				seenKnown[v.v.Key] = true
				fmt.Printf("KNOWN-FINDING: property=%s %s [%s]\n", id, what, v.v.Key)
			}
			ev.KnownHits++
			continue
		}
		ev.Violations++
		if seenNew[v.v.Key] {
			continue
		}
		seenNew[v.v.Key] = true
		newCount++
		if newCount > 8 {
			continue // enough distinct reports for one run
		}
		c, o, vv := minimise(chk, env, v.c, v.o, v.v, tierBudget(tier))
		if reported[vv.Key] {
			continue // minimisation led to an already reported violation
		}
		reported[vv.Key] = true
		if _, ok := known.match(id, vv); ok {
			continue
		}
		path, confirmed := writeReplay(chk, env, c, o, vv)
		if !confirmed {
			fmt.Printf("FLAKY: property=%s class=%s key=%s did not reproduce on replay (%s)\n", id, vv.Class, vv.Key, path)
			if exit == 0 {
				exit = 2
			}
			continue
		}
		fmt.Printf("VIOLATION property=%s replay=%s\n", id, path)
		fmt.Printf("  class=%s key=%s\n  %s\n", vv.Class, vv.Key, strings.ReplaceAll(firstLines(vv.Detail, 12), "\n", "\n  "))
		exit = 1
	}
	ev.finish(env, time.Since(start))
	if s, ok := chk.(interface{ Summary([]result) any }); ok {
		ev.extra["summary"] = s.Summary(results)
	}
	if err := ev.write(); err != nil {
		fmt.Fprintf(os.Stderr, "INFRA: evidence: %v\n", err)
		if exit == 0 {
			exit = 2
		}
	}
	if exit == 0 {
		if err := ev.sanity(); err != nil {
			fmt.Fprintf(os.Stderr, "INFRA: %v\n", err)
			exit = 2
		}
	}
	fmt.Fprintf(os.Stderr, "%s %s: %d cases, %d violations (%d known-finding hits), %.0fs, exit %d\n", id, tier, len(cases), ev.Violations, ev.KnownHits, time.Since(start).Seconds(), exit)
	return exit
}

func runAll(chk Check, env *Env, cases []*Case) []result {
	results := make([]result, len(cases))
	var wg sync.WaitGroup
	ch := make(chan int)
	var done int
	var mu sync.Mutex
	for i := 0; i < env.Workers; i++ {
		wg.Add(1)
		go func() {
			defer wg.Done()
			for idx := range ch {
				t0 := time.Now()
				o, err := safeRun(chk, env, cases[idx])
				results[idx] = result{c: cases[idx], o: o, err: err, dur: time.Since(t0)}
				if d := time.Since(t0); d > 60*time.Second || os.Getenv("VERIF_VERBOSE") != "" {
					ps := string(cases[idx].Params)
					if len(ps) > 300 {
						ps = ps[:300]
					}
					fmt.Fprintf(os.Stderr, "  case %d took %.0fs: %s\n", idx, d.Seconds(), ps)
				}
				mu.Lock()
				done++
				if done%50 == 0 {
					fmt.Fprintf(os.Stderr, "  ... %d/%d cases\n", done, len(cases))
				}
				mu.Unlock()
			}
		}()
	}
	for i := range cases {
		ch <- i
	}
	close(ch)
	wg.Wait()
	return results
}

func safeRun(chk Check, env *Env, c *Case) (o *Outcome, err error) {
	defer func() {
		if r := recover(); r != nil {
			err = fmt.Errorf("panic in case %s: %v", c.Kind, r)
		}
	}()
	o, err = chk.Run(env, c)
	if err == nil && o == nil {
		err = errors.New("nil outcome")
	}
	return
}

// minimise greedily tries the check's shrink candidates while the same
// violation (same key, else same class) persists, within a budget of re-runs.
func minimise(chk Check, env *Env, c *Case, o *Outcome, v *Violation, budget int) (*Case, *Outcome, *Violation) {
	for budget > 0 {
		cands := chk.Shrink(c)
		if len(cands) == 0 {
			break
		}
		if len(cands) > budget {
			cands = cands[:budget]
		}
		budget -= len(cands)
		rs := runAll(chk, env, cands)
		improved := false
		for pass := 0; pass < 2 && !improved; pass++ {
			for _, r := range rs {
				if r.err != nil {
					continue
				}
				var nv *Violation
				if pass == 0 {
					nv = hasKey(r.o, v.Key)
				} else {
					for _, x := range violations(r.o) {
						if x.Class == v.Class {
							nv = x
							break
						}
					}
				}
				if nv != nil {
					c, o, v = r.c, r.o, nv
					improved = true
					break
				}
			}
		}
		if !improved {
			break
		}
	}
	return c, o, v
}

func writeReplay(chk Check, env *Env, c *Case, o *Outcome, v *Violation) (string, bool) {
	rc := *c
	rc.Traces = o.Traces
	rc.Expect = v.Key
	rc.Detail = v.Detail
	dir := filepath.Join(outDir(), "replays")
	os.MkdirAll(dir, 0o755)
	name := fmt.Sprintf("%s-%d-%s.json", chk.ID(), env.Seed, sanitize(v.Key))
	path := filepath.Join(dir, name)
	b, _ := json.MarshalIndent(rc, "", " ")
	os.WriteFile(path, b, 0o644)
	// Confirm in a fresh execution that the replay reproduces the violation.
	o2, err := safeRun(chk, env, &rc)
	if err != nil {
		return path, false
	}
	if hasKey(o2, v.Key) != nil {
		return path, true
	}
	// Same oracle failing at a neighbouring site still reproduces the violation
	// (long -debugdir runs are not event-for-event identical between executions).
	for _, x := range violations(o2) {
		if x.Class == v.Class {
			return path, true
		}
	}
	return path, false
}

func sanitize(s string) string {
	var b strings.Builder
	for _, r := range s {
		switch {
		case r >= 'a' && r <= 'z', r >= 'A' && r <= 'Z', r >= '0' && r <= '9', r == '-', r == '_', r == '.':
			b.WriteRune(r)
		default:
			b.WriteByte('_')
		}
	}
	out := b.String()
	if len(out) > 90 {
		out = out[:90]
	}
	return out
}

func replayOne(chk Check, env *Env, known *KnownFindings, path string) int {
	b, err := os.ReadFile(path)
	if err != nil {
		fmt.Fprintf(os.Stderr, "INFRA: %v\n", err)
		return 2
	}
	c := &Case{}
	if err := json.Unmarshal(b, c); err != nil {
		fmt.Fprintf(os.Stderr, "INFRA: %v\n", err)
		return 2
	}
	o, err := safeRun(chk, env, c)
	if err != nil {
		fmt.Fprintf(os.Stderr, "INFRA: replay: %v\n", err)
		return 2
	}
	exit := 0
	for _, v := range violations(o) {
		if what, ok := known.match(chk.ID(), v); ok {
			fmt.Printf("KNOWN-FINDING: property=%s %s [%s]\n", chk.ID(), what, v.Key)
			continue
		}
		fmt.Printf("VIOLATION property=%s replay=%s\n  class=%s key=%s\n  %s\n", chk.ID(), path, v.Class, v.Key, strings.ReplaceAll(firstLines(v.Detail, 20), "\n", "\n  "))
		exit = 1
	}
	if exit == 0 {
		fmt.Printf("replay %s: no unlisted violation (file expects %q)\n", path, c.Expect)
	}
	return exit
}

// outDir is where evidence/ and replays/ are written: /verif, unless a
// seeded-change evaluation redirects it with VERIF_OUT.
func outDir() string {
	if d := os.Getenv("VERIF_OUT"); d != "" {
		return d
	}
	return simbuild.VerifDir()
}

// isInfra classifies an engine error.
func isInfra(err error) bool { return errors.Is(err, engine.ErrInfra) }
