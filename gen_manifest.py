#!/usr/bin/env python3
# Regenerates MANIFEST.json (kept as a script so that the texts live in one reviewable place).
import json
TECH = "deterministic simulation with fault injection"
def chk(pid, cat, ref, text, note, tech):
    return {"property_id": pid, "quick_cmd": f"./check {pid} quick", "thorough_cmd": f"./check {pid} thorough",
            "evidence_file": f"evidence/{pid}.json", "replay_cmd_template": f"./check {pid} quick --replay {{path}}",
            "engine": "verifsim", "technique": tech,
            "level_claimed": {"category": cat, "design_ref": ref, "text": text}, "level_note": note}
checks = [
 chk("C03", "exploration", "DESIGN.md §4 C03, §10",
  "The same (program, configuration) is built under seeded environment variants that must not matter — runtime seed (Go map iteration order, process-global math/rand, temp-file names, all decided by the runtime seam), -p and schedule of the garble processes, cache state (user-cold / a seeded subset of a first build's entries deleted / fully cold in the thorough tier), location of source tree and TMPDIR — and every variant's binary must equal the canonical build's, as must the obfuscated source handed to each compile step (what -debugdir would show), which is hashed as the run proceeds so that a mismatch is localised to a package and file. The thorough tier adds fully cold builds, including a pair for a program with trash blocks.",
  "cmd/go, compile, asm and link taken to be deterministic; clock references are reviewed by the instrumenter (an unlisted one fails the run); a defect affecting every variant identically is invisible.",
  TECH + ": seeded search over runtime-randomness seeds, schedules and cache states, byte comparison with a canonical build"),
 chk("C04", "exploration", "DESIGN.md §4 C04, §10",
  "Only the stream-delivery slice of C04: the trace of an obfuscated corpus program and texts derived from it are delivered to `garble reverse` through a simulator-owned pipe in seeded chunkings with stalls, or as a file; output must be independent of delivery, equal the plain -trimpath trace (metamorphically extended to CRLF, no final newline, a 70 kB line, punctuation-wrapped tokens), pass unobfuscated text through byte for byte with exit 1, and exit 0 iff something was replaced.",
  "The program/call-shape quantifier of C04 is a pure function of the program and is NOT explored beyond the fixed corpus program p6; this check claims the delivery dimension only.",
  TECH + ": seeded chunking/stall schedules of the input stream against a metamorphic oracle"),
 chk("C06", "exploration", "DESIGN.md §4 C06, §10",
  "Histories of builds and source edits over one shared GOCACHE+GARBLE_CACHE (fixed: every ordered pair of configurations one input apart, edit shapes that change a package's plain build but not its garbled output or vice versa; seeded: random histories of 2-6 operations): after every build the exit status and the binary must equal those of the isolated cold reference of that (configuration, source); an immediately repeated build of the same configuration and source must start no compile/asm child (observed by the simulator, which sees every toolexec process).",
  "Reference = garble-sim alone on a fresh copy of the same multi-configuration std template; fault-free by definition; runtime randomness held fixed.",
  TECH + " (fault-free configuration): seeded histories against a reference model (the cold build)"),
 chk("C07", "fault_enumeration", "DESIGN.md §4 C07, §10",
  "Every user-package entry file of GARBLE_CACHE (index and data, each kind) and every file of the patched-linker cache is deleted/emptied/truncated in turn (thorough: all five modes), plus all multi-element subsets along the import chain, all combinations of whole-directory removals, seeded samples of std entries, GOCACHE files, multi-fault sets under seeded -p 4 schedules, two siblings recomputing the same lost dependency entry concurrently, one entry file damaged while the garbled part of GOCACHE is lost (same action IDs recompiled over half-present entries), files the build stored without going through the cache API (enumerated positionally), and entries vanishing at a parked event mid-build; after each, the real garble rebuilds under the simulator and must succeed, equal the isolated cold reference bit for bit, behave like the plain build, only ever read cache bytes that were put under that key, and leave a state in which a further rebuild is a no-op.",
  "Reference = garble-sim itself run alone on a fresh std template; runtime randomness held fixed; std entries and GOCACHE files are sampled, not enumerated; -debugdir cases run outside the gate because garble forces a full -a rebuild for them; same-size content corruption is outside the property.",
  TECH + ": durable-state faults enumerated over cache files, rebuild under the gated simulator, compared with an isolated reference build"),
 chk("C08", "exploration", "DESIGN.md §4 C08, §10",
  "Scope: order-, cache- and schedule-dependence of reflection detection. A catalogue program (one output line per flow path: direct, 1-3 helpers, interface, pointer, slice, variadic, generic function/type, JSON, lookup by name, embedded, declared in dependant, reflected inside the declaring package, store-then-call block, call result) and the p1 diamond are built under many runtime seeds (each a different, replayable iteration order of every map in every garble process), with dependency facts cached or lost and recomputed recursively, at -p 1 and under seeded -p 4 schedules; every line must equal the plain build's. The evidence classifies each failing entry as order-dependent or failing under every seed.",
  "The arbitrary-struct-shape dimension of C08 is a pure function of the program and is covered only by the fixed catalogue; the injected run-time replacer is exercised only with the names these programs produce.",
  TECH + ": seeded search over map-iteration orders (runtime seam), cache states and schedules"),
 chk("C17", "exploration", "DESIGN.md §4 C17, §10",
  "Two or three top-level garble builds (same project same flags / different flags / different projects, -p 1-4) start together over shared GOCACHE, GARBLE_CACHE and TMPDIR from {template, linker cache empty, linker missing with stamp intact, stamp in the old format, warm, aged so that each final trim deletes}; every garble process parks at each routed call and a seeded scheduler (random / sticky / PCT) releases one at a time at quiescence. Each client must exit 0 with its isolated reference binary; monitors on the history: the patched linker is executed only with the content its stamp vouches for and never while a build of it is in flight (a half-copied output is exposed to the other clients while its producer is parked), no access to another client's shared temp dir, cache hits return put bytes, no deadlock. Same-seed reruns measure the divergence rate of the quiescence heuristic.",
  "Interleavings of shared-state events, not of instructions; quiescence of uninstrumented go commands is read from /proc (recorded traces replay by identity and do not depend on it); no faults here.",
  TECH + ": seeded schedules over parked real processes with history monitors and isolated reference builds"),
 chk("C18", "fault_enumeration", "DESIGN.md §4 C18, §10",
  "The canonical event sequence of a build is recorded per start state {template, linker cache empty, linker missing with stamp intact, cache aged}; a -debugdir build is crashed at sampled event indexes (its rerun runs outside the gate and must also leave the same debug trees); every gated event index (thorough) is a crash point: the whole process tree is SIGKILLed there, for writes also after a torn prefix (0/1/half/size-1 bytes), for the linker build also with the declared -o output truncated; plus seeded repeated crashes, crashes under -p 4 schedules and loss of cmd/go's newest GOCACHE files. The same command is then rerun fault-free on the same caches and must exit 0, equal the uninterrupted reference, behave like the plain build and finish within 3x the events of an uninterrupted build.",
  "Process death only (no power loss; garble never fsyncs); a kill inside an uninstrumented writer is emulated as kill at the surrounding exec event plus truncation of its declared output.",
  TECH + ": crash points enumerated over the recorded event sequence, rerun compared with an uninterrupted reference"),
 chk("C19", "fault_enumeration", "DESIGN.md §4 C19, §10",
  "Commands {build, run, reverse, map} run to completion with outcomes produced by input (type error in a dependency, syntax error, missing body, missing import, bad flags, garble flag after the command, GOGARBLE matching nothing) and by injection (ENOSPC/EACCES/EIO at each gated call in turn, tool exit != 0 at each exec) and with every kind of pre-existing -debugdir target, plus the history `-debugdir build; edit; build; -debugdir build` and a build whose restore-from-cache step is starved of every cache entry (the debug dir written by the build alone must already be right); afterwards the source tree is byte-identical, TMPDIR holds nothing garble created (unless the injected fault was the failure of that very removal), a foreign target is untouched and the command failed, an owned one holds the same trees as a cold build, and no mutating call in the event log touched a path outside {output, TMPDIR, caches, debugdir}.",
  "No kills (the property is about commands that return); `garble test` is not exercised (it would need a second std template); accepted -debugdir targets mean full -a rebuilds, of which the quick tier runs one under the gate and the rest outside it (end-state invariants only).",
  TECH + ": I/O errors and tool failures injected at every gated call of recorded runs, end-state and event-log invariants"),
]
na = {
"C01":"Behavioural equivalence of the output program is a pure function of (program, input, flags); no schedule, clock, fault or interleaving in it. Its multi-process aspects are owned by C03/C06/C17.",
"C02":"Absence of names/paths/metadata in the binary is a pure function of (program, flags, directory names); nothing to schedule or fail.",
"C05":"encode/decode identity over (bytes, obfuscator, generator seed): the generator is an explicit seeded parameter; ranging over it is input generation, not simulation.",
"C09":"Which literals survive verbatim is a pure function of (program, flags).",
"C10":"Concerns run-time behaviour of the produced program's Go runtime; garble's part is a deterministic source rewrite.",
"C11":"Semantic preservation of a CFG transformation for given (function, parameters, seed) is a pure function (a seed-dependent panic of the SSA-to-AST conversion on loops was met while building the corpus and is recorded in DESIGN.md, but it is not a simulation target).",
"C12":"An identifier's name is a pure function of (seed, salt inputs, name); independence from cache state and history is checked as byte-identity in C03/C06.",
"C13":"Agreement of three computations of the same pure naming function.",
"C14":"Which packages are obfuscated is a pure function of (GOGARBLE, import graph); its cache-key aspect is part of C06's histories.",
"C15":"A universally quantified statement about a type-hash function; pure.",
"C16":"A pure function of (salt, seed, name); garble is single-goroutine so nothing is raced.",
"C20":"Splitting an argument vector is a pure function of the vector.",
}
m = {"version": 1, "setup_cmd": "./setup.sh",
 "hooks": {"guard": "verifsim-generated",
  "enable": "no hook lives in /repo: every check copies /repo's working tree to a scratch dir, rewrites call targets (os, os/exec, flock, go-internal cache) to the verifrt shim by callee identity (sim/instrument) and builds that copy with a runtime/rand.go overlay (sim/rt); the shim is a pass-through unless VERIF_SIM_SOCK is set",
  "baseline_off_cmd": "cd /repo && go test -vet=off -count=1 -timeout 25m ./...", "source_commits": [], "add_only": True},
 "engines": [{"name": "verifsim", "path": "sim/cmd/verifsim", "serves_properties": [c["property_id"] for c in checks],
   "kind_free_text": "deterministic multi-process simulator: real garble/cmd/go/compile/link processes parked at routed calls, seeded scheduler releasing one at quiescence, fault injector (kill, torn write, errno, tool failure, durable-state damage), runtime-randomness seam, reference builds, replay by process identity"}],
 "checks": checks,
 "not_applicable": [{"property_id": k, "reason": v} for k, v in na.items()],
 "notes": "Checks rebuild the simulator and garble-sim from the current trees on every invocation. Exit 0 = held / known findings only; 1 = VIOLATION line with replay file; 2 = infrastructure trouble (never a verdict). known_findings.json lists findings (suppressed by exact key) and fixed defects (suppress nothing)."}
json.dump(m, open("MANIFEST.json", "w"), indent=1)
print("written", len(checks), "checks")
