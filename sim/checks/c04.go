package checks

import (
	"encoding/json"
	"fmt"
	"math/rand"
	"os"
	"path/filepath"
	"strings"

	"verif.local/sim/engine"
	"verif.local/sim/world"
)

// C04 (slice) — garble reverse restores traces: stream delivery.
//
// Only the part of C04 that meets nondeterminism is simulated: reverse consumes
// a stream. The trace printed by an obfuscated program (and texts derived from
// it) is delivered to `garble reverse` through a pipe the simulator owns, in
// seeded chunkings with stalls, or as a file argument. The output must not
// depend on the delivery, must equal the plain -trimpath build's trace for the
// corpus program, unobfuscated text must pass through byte for byte with exit
// status 1, and status 0 must mean something was replaced.

func init() { Registry["C04"] = func() Check { return &c04{} } }

type c04 struct{}

func (c04) ID() string    { return "C04" }
func (c04) Level() string { return "exploration" }
func (c04) Rule() string {
	return "case = (input text in {obfuscated trace of corpus program p6, same with CRLF line endings, without final newline, with a 70000-byte prefix on one line, with tokens wrapped in punctuation, text with nothing obfuscated, empty}, configuration in {default, -literals}, delivery in {file argument, stdin pipe in one write, 1-byte dribble, seeded random cuts, cuts right before each newline, cuts in the middle of every obfuscated-looking token} with seeded stalls of 0-3 ms between chunks). Oracle: output independent of delivery and equal to the metamorphic expectation derived from the plain build's trace; pass-through and exit status rules. Non-trivial = delivery is not a single write; distinct = distinct (input, configuration, chunking)."
}
func (c04) Assumptions() []string {
	return []string{
		"the program/call-shape quantifier of C04 is a pure function of the program and is not explored beyond the fixed corpus program p6 (method, closure, generic function, deferred closure, two packages)",
		"stall lengths are real milliseconds; only chunk boundaries are replayable, which is all the oracle depends on",
	}
}

func (c04) Prepare(e *Env) error {
	_, err := e.Template(c06TmplCfgs(e.Tier)...)
	return err
}

type c04Params struct {
	Input string `json:"input"` // trace | crlf | nofinalnl | longline | punct | plain | empty
	Cfg   string `json:"cfg"`
	Tier  string `json:"tier"`
	Mode  string `json:"mode"` // file | oneshot | dribble | random | before-nl | in-token
	Seed  int64  `json:"seed"`
}

type c04Base struct {
	Dir     string // snapshot with warm caches
	Garbled string // trace printed by the obfuscated program
	Plain   string // trace printed by the plain build
	Rev     string // reference reversal of Garbled (file argument, outside the gate)
}

func (c c04) base(e *Env, cfgName, tier string) (*c04Base, error) {
	v, err := e.Memo("c04base:"+cfgName, func() (any, error) {
		cfg, _ := c06Config(cfgName)
		tcfgs := c06TmplCfgs(tier)
		tmpl, err := e.Template(tcfgs...)
		if err != nil {
			return nil, err
		}
		w, err := world.New(e.Bin, "c04b")
		if err != nil {
			return nil, err
		}
		defer w.Close()
		if err := w.Load(tmpl); err != nil {
			return nil, err
		}
		src, err := PrepareSource(w, "p6", "p6", nil)
		if err != nil {
			return nil, err
		}
		out := filepath.Join(w.Out, "bin")
		if _, se, code := w.RunPlain(src, cfg, "build", "-o", out, "."); code != 0 {
			return nil, fmt.Errorf("c04: garbled build of p6 failed: %s", shortErr(se))
		}
		garbled, _ := RunBinary(out)
		plain, err := e.Plain("p6", nil, nil, "")
		if err != nil {
			return nil, err
		}
		// The reference reversal: the whole trace as a file argument, outside the gate.
		tf := filepath.Join(w.Out, "trace.txt")
		os.WriteFile(tf, []byte(garbled), 0o644)
		rev, se, code := w.RunPlain(src, cfg, "reverse", ".", tf)
		if code != 0 {
			return nil, fmt.Errorf("c04: reference `garble reverse` of the obfuscated trace exited %d: %s", code, shortErr(se))
		}
		dir, err := os.MkdirTemp(filepath.Dir(w.Root), "verif-snap-c04-")
		if err != nil {
			return nil, err
		}
		e.OnClose(func() { os.RemoveAll(dir) })
		if err := os.Rename(w.GoCache, filepath.Join(dir, "gocache")); err != nil {
			return nil, err
		}
		if err := os.Rename(w.GarbleCache, filepath.Join(dir, "garblecache")); err != nil {
			return nil, err
		}
		if garbled == plain.Stdout {
			return nil, fmt.Errorf("c04: the obfuscated program printed the same trace as the plain one; nothing to reverse")
		}
		return &c04Base{Dir: dir, Garbled: garbled, Plain: plain.Stdout, Rev: rev}, nil
	})
	if err != nil {
		return nil, err
	}
	return v.(*c04Base), nil
}

// derive builds the input text and the expected output from the garbled trace g
// and the plain trace p (which have the same line structure).
func c04Derive(kind, g, p string) (in, want string, wantExit int) {
	const noise = "plain text line with nothing obfuscated"
	switch kind {
	case "trace":
		return g, p, 0
	case "crlf":
		return strings.ReplaceAll(g, "\n", "\r\n"), strings.ReplaceAll(p, "\n", "\r\n"), 0
	case "nofinalnl":
		return strings.TrimSuffix(g, "\n"), strings.TrimSuffix(p, "\n"), 0
	case "longline":
		gl, pl := strings.Split(g, "\n"), strings.Split(p, "\n")
		pre := strings.Repeat("x", 70000) + " "
		if len(gl) > 2 {
			gl[1], pl[1] = pre+gl[1], pre+pl[1]
		}
		return strings.Join(gl, "\n"), strings.Join(pl, "\n"), 0
	case "punct":
		wrap := func(s string) string {
			ls := strings.Split(s, "\n")
			for i, l := range ls {
				if l != "" && !strings.HasPrefix(l, "\t") {
					ls[i] = "[" + l + "];"
				}
			}
			return strings.Join(ls, "\n")
		}
		return wrap(g), wrap(p), 0
	case "plain":
		t := noise + "\nsecond line: func main() { return }\n\ttabbed/path.go:12\n"
		return t, t, 1
	case "empty":
		return "", "", 1
	}
	return g, p, 0
}

func c04Chunks(in string, mode string, r *rand.Rand) (chunks [][]byte, gaps []int) {
	b := []byte(in)
	cut := func(points []int) {
		prev := 0
		for _, p := range points {
			if p > prev && p < len(b) {
				chunks = append(chunks, b[prev:p])
				prev = p
			}
		}
		chunks = append(chunks, b[prev:])
	}
	switch mode {
	case "oneshot":
		chunks = [][]byte{b}
	case "dribble":
		n := len(b)
		if n > 600 {
			// dribble the first 600 bytes, then the rest
			var pts []int
			for i := 1; i <= 600; i++ {
				pts = append(pts, i)
			}
			cut(pts)
		} else {
			var pts []int
			for i := 1; i < n; i++ {
				pts = append(pts, i)
			}
			cut(pts)
		}
	case "random":
		var pts []int
		for i := 1; i < len(b); i++ {
			if r.Intn(40) == 0 {
				pts = append(pts, i)
			}
		}
		cut(pts)
	case "before-nl":
		var pts []int
		for i, c := range b {
			if c == '\n' {
				pts = append(pts, i)
			}
		}
		cut(pts)
	case "in-token":
		// cut in the middle of every run of identifier characters of length >= 6
		var pts []int
		start := -1
		for i := 0; i <= len(b); i++ {
			isID := i < len(b) && (b[i] == '_' || b[i] >= '0' && b[i] <= '9' || b[i] >= 'a' && b[i] <= 'z' || b[i] >= 'A' && b[i] <= 'Z')
			if isID && start < 0 {
				start = i
			}
			if !isID && start >= 0 {
				if i-start >= 6 && i-start < 64 {
					pts = append(pts, start+(i-start)/2)
				}
				start = -1
			}
		}
		cut(pts)
	}
	if len(chunks) == 0 {
		chunks = [][]byte{{}}
	}
	for range chunks {
		g := 0
		if r.Intn(6) == 0 {
			g = 1 + r.Intn(3)
		}
		gaps = append(gaps, g)
	}
	return
}

func (c c04) Generate(e *Env) ([]*Case, error) {
	rng := rand.New(rand.NewSource(e.Seed))
	thorough := e.Tier == "thorough"
	var cases []*Case
	add := func(p c04Params) {
		p.Tier = e.Tier
		cases = append(cases, &Case{Property: "C04", Kind: "reverse", Seed: e.Seed, Params: mustJSON(p)})
	}
	inputs := []string{"trace", "crlf", "nofinalnl", "longline", "punct", "plain", "empty"}
	modes := []string{"file", "oneshot", "dribble", "random", "before-nl", "in-token"}
	cfgs := []string{"default"}
	if thorough {
		cfgs = append(cfgs, "literals")
	}
	for _, cfg := range cfgs {
		for _, in := range inputs {
			ms := modes
			if !thorough {
				// file + two seeded stream modes per input
				ms = []string{"file", modes[1+rng.Intn(2)], modes[3+rng.Intn(3)]}
			}
			for _, m := range ms {
				n := 1
				if thorough && m == "random" {
					n = 4
				}
				for i := 0; i < n; i++ {
					add(c04Params{Input: in, Cfg: cfg, Mode: m, Seed: rng.Int63()})
				}
			}
		}
	}
	return cases, nil
}

func (c c04) Run(e *Env, cs *Case) (*Outcome, error) {
	var p c04Params
	if err := json.Unmarshal(cs.Params, &p); err != nil {
		return nil, err
	}
	base, err := c.base(e, p.Cfg, p.Tier)
	if err != nil {
		return nil, err
	}
	cfg, _ := c06Config(p.Cfg)
	w, err := world.New(e.Bin, "c04")
	if err != nil {
		return nil, err
	}
	defer w.Close()
	// reverse ranges over maps of packages and names: give each case its own
	// (replayable) iteration order.
	w.RtSeed = fmt.Sprint(1 + p.Seed%1000003)
	if err := world.CpA(filepath.Join(base.Dir, "gocache"), w.GoCache); err != nil {
		return nil, err
	}
	if err := world.CpA(filepath.Join(base.Dir, "garblecache"), w.GarbleCache); err != nil {
		return nil, err
	}
	src, err := PrepareSource(w, "p6", "p6", nil)
	if err != nil {
		return nil, err
	}
	// Delivery independence and the metamorphic relations are judged against the
	// reference reversal; whether that reversal equals the plain build's trace is
	// a statement about the program's call shapes, reported once, on its own key.
	in, want, wantExit := c04Derive(p.Input, base.Garbled, base.Rev)
	r := rand.New(rand.NewSource(p.Seed))
	var cl *engine.Client
	nchunks := 1
	if p.Mode == "file" {
		f := filepath.Join(w.Out, "input.txt")
		if err := os.WriteFile(f, []byte(in), 0o644); err != nil {
			return nil, err
		}
		cl = w.Client("A", src, cfg, "reverse", ".", f)
	} else {
		cl = w.Client("A", src, cfg, "reverse", ".")
		cl.StdinChunks, cl.StdinGaps = c04Chunks(in, p.Mode, r)
		nchunks = len(cl.StdinChunks)
	}
	s, err := runSim(w, []*engine.Client{cl}, engine.Canonical{}, true, nil, nil)
	if err != nil {
		return nil, err
	}
	o := &Outcome{Faults: map[string]int{}, Probes: map[string]int{}, Traces: map[string][]engine.Step{}}
	o.SimRuns = 1
	o.Steps = len(s.Steps)
	o.NonTrivial = nchunks > 1
	o.Fingerprint = string(cs.Params)
	o.Probes["chunks-delivered"] += nchunks
	o.Sample = map[string]any{"params": p, "chunks": nchunks, "input_bytes": len(in), "exit": cl.ExitCode}
	got := cl.Stdout.String()
	key := p.Input + "/" + p.Cfg + "/" + p.Mode
	viol := func(class, detail string) (*Outcome, error) {
		o.Violation = &Violation{Class: class, Key: class + "/" + key, Detail: detail + "\nstderr: " + firstLines(shortErr(cl.Stderr.String()), 4)}
		return o, nil
	}
	if got != want {
		d := diffLines(got, want)
		if len(d) > 6 {
			d = d[:6]
		}
		for i := range d {
			if len(d[i]) > 300 {
				d[i] = d[i][:300] + "..."
			}
		}
		return viol("reverse-output-wrong", fmt.Sprintf("input %q delivered as %s in %d chunk(s): output (%d bytes) differs from the expected text (%d bytes):\n%s", p.Input, p.Mode, nchunks, len(got), len(want), strings.Join(d, "\n")))
	}
	if cl.ExitCode != wantExit {
		return viol("reverse-exit-status", fmt.Sprintf("input %q: exit status %d, expected %d (0 iff something was replaced)", p.Input, cl.ExitCode, wantExit))
	}
	if lo := leftovers(w.Tmp); len(lo) > 0 {
		return viol("tmpdir-leftover", fmt.Sprintf("reverse left %v in TMPDIR", lo))
	}
	if p.Input == "trace" && p.Mode == "file" {
		// Call-shape oracle for the fixed corpus program: one violation per frame
		// line that the reversal does not restore to what the plain build prints.
		for _, d := range diffLines(base.Rev, base.Plain) {
			_, rest, _ := strings.Cut(d, " | want: ")
			v := &Violation{Class: "reversed-trace-differs-from-plain", Key: "reversed-trace-differs-from-plain/p6/" + strings.TrimSpace(rest),
				Detail: "corpus p6, reference reversal vs trace of the plain -trimpath build: " + d}
			if o.Violation == nil {
				o.Violation = v
			} else {
				o.More = append(o.More, v)
			}
		}
	}
	return o, nil
}

func (c c04) Shrink(cs *Case) []*Case {
	var p c04Params
	if json.Unmarshal(cs.Params, &p) != nil {
		return nil
	}
	var out []*Case
	for _, m := range []string{"file", "oneshot"} {
		if p.Mode != m {
			q := p
			q.Mode = m
			nc := *cs
			nc.Params = mustJSON(q)
			out = append(out, &nc)
		}
	}
	return out
}
