package main

import (
	"fmt"

	"example.test/p6/lib"
	"example.test/p6/lib2"
)

type runner struct{ name string }

func (r runner) run() string {
	t := &lib.Tracer{Depth: 1}
	return t.Walk()
}

func (r runner) run2() string {
	t := &lib2.Tracer{Depth: 0}
	return t.Walk()
}

func unexportedEntry() string {
	r := runner{name: "r"}
	return r.run() + r.run2()
}

func main() {
	fmt.Print(unexportedEntry())
	fmt.Println("plain text line with nothing obfuscated: func main() { return }")
}
