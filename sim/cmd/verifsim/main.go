package main

import (
	"encoding/json"
	"flag"
	"fmt"
	"os"
	"os/exec"
	"path/filepath"
	"time"

	"verif.local/sim/checks"
	"verif.local/sim/engine"
	"verif.local/sim/simbuild"
	"verif.local/sim/world"
)

func main() {
	if len(os.Args) < 2 {
		fmt.Fprintln(os.Stderr, "usage: verifsim <build|trace|...>")
		os.Exit(2)
	}
	switch os.Args[1] {
	case "build":
		res, err := simbuild.Build("/repo", os.Stderr)
		if err != nil {
			fmt.Fprintln(os.Stderr, "build failed:", err)
			os.Exit(2)
		}
		b, _ := json.MarshalIndent(res, "", " ")
		fmt.Println(string(b))
	case "trace":
		cmdTrace(os.Args[2:])
	case "prewarm":
		// Build garble-sim from /repo and the quick-tier std templates, so that the
		// first check after a fresh restore does not pay for them.
		if err := checks.Prewarm("quick"); err != nil {
			fmt.Fprintln(os.Stderr, "prewarm failed:", err)
			os.Exit(2)
		}
	case "check":
		fs := flag.NewFlagSet("check", flag.ExitOnError)
		tier := fs.String("tier", "quick", "quick|thorough")
		replay := fs.String("replay", "", "replay file")
		if len(os.Args) < 3 {
			fmt.Fprintln(os.Stderr, "usage: verifsim check <id> [--tier t] [--replay f]")
			os.Exit(2)
		}
		fs.Parse(os.Args[3:])
		seed := int64(1)
		if v := os.Getenv("VERIF_SEED"); v != "" {
			fmt.Sscan(v, &seed)
		}
		if t := os.Getenv("VERIF_TIER"); t != "" && *tier == "" {
			*tier = t
		}
		os.Exit(checks.Main(os.Args[2], *tier, seed, *replay))
	default:
		fmt.Fprintln(os.Stderr, "unknown command")
		os.Exit(2)
	}
}

func cmdTrace(args []string) {
	fs := flag.NewFlagSet("trace", flag.ExitOnError)
	prog := fs.String("prog", "p1", "corpus program")
	p := fs.Int("p", 1, "-p for go build")
	verbose := fs.Bool("v", false, "print every step")
	rtseed := fs.String("rtseed", "1", "VERIF_RTSEED")
	ctrl := fs.Bool("ctrlflow", false, "enable control flow obfuscation")
	dump := fs.String("dump", "", "copy every compile input into this directory")
	fs.Parse(args)
	res, err := simbuild.Build("/repo", os.Stderr)
	if err != nil {
		fmt.Fprintln(os.Stderr, err)
		os.Exit(2)
	}
	cfg := world.Config{Name: "default"}
	if *ctrl {
		cfg = world.Config{Name: "ctrlflow", Env: map[string]string{"GARBLE_EXPERIMENTAL_CONTROLFLOW": "1"}}
	}
	t0 := time.Now()
	tmpl, err := world.EnsureTemplate(res.Bin, res.Key, []world.Config{cfg})
	if err != nil {
		fmt.Fprintln(os.Stderr, err)
		os.Exit(2)
	}
	fmt.Println("template", tmpl.Dir, len(tmpl.Files), time.Since(t0))
	w, err := world.New(res.Bin, "trace")
	if err != nil {
		panic(err)
	}
	defer w.Close()
	w.RtSeed = *rtseed
	t0 = time.Now()
	if err := w.Load(tmpl); err != nil {
		panic(err)
	}
	fmt.Println("load", time.Since(t0))
	src, err := w.CopyCorpus(*prog, *prog)
	if err != nil {
		panic(err)
	}
	out := filepath.Join(w.Out, "bin")
	c := w.Client("A", src, cfg, "build", fmt.Sprintf("-p=%d", *p), "-o", out, ".")
	s := &engine.Sim{GarbleBin: res.Bin, Clients: []*engine.Client{c}, Policy: engine.Canonical{}, Serial: *p == 1, RunDir: w.Root, Timeout: 5 * time.Minute}
	if *dump != "" {
		os.MkdirAll(*dump, 0o755)
		s.OnStep = func(s *engine.Sim, st engine.Step) {
			if st.Op != "exec" || filepath.Base(st.Path) != "compile" {
				return
			}
			for i := len(s.Log) - 1; i >= 0; i-- {
				le := s.Log[i]
				if le.Proc == st.Proc && le.Msg.Op == "exec" {
					for _, a := range le.Msg.Args {
						if filepath.Ext(a) == ".go" {
							if b, err := os.ReadFile(a); err == nil {
								os.WriteFile(filepath.Join(*dump, filepath.Base(filepath.Dir(a))+"_"+filepath.Base(a)), b, 0o644)
							}
						}
					}
					break
				}
			}
		}
	}
	t0 = time.Now()
	err = s.Run()
	fmt.Println("run", time.Since(t0), "err", err, "exit", c.ExitCode, "deadlock", s.Deadlock)
	fmt.Printf("stats %+v\n", s.Stats)
	if *verbose {
		for _, st := range s.Steps {
			fmt.Printf("%4d %6dms %-50s %2d %-12s %s %s\n", st.N, s.StepAt[st.N].Milliseconds(), st.Proc, st.Seq, st.Op, st.Site, filepath.Base(st.Path))
		}
	}
	fmt.Println("stderr:", c.Stderr.String())
	o, err := exec.Command(out).CombinedOutput()
	fmt.Printf("binary: %v\n%s", err, o)
	fmt.Println("sha", world.HashFile(out))
}
