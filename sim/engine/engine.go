// Package engine is the deterministic simulator core: it starts garble-sim
// commands ("clients") as real process trees, lets every garble process park at
// each routed call, and releases exactly one parked process at a time according
// to a policy (seeded scheduler, fault plan or recorded replay).
package engine

import (
	"bufio"
	"bytes"
	"encoding/json"
	"errors"
	"fmt"
	"net"
	"os"
	"os/exec"
	"path/filepath"
	"sort"
	"strings"
	"syscall"
	"time"
)

// Msg mirrors verifrt.Msg.
type Msg struct {
	T     string   `json:"t"`
	Pid   int      `json:"pid,omitempty"`
	PPid  int      `json:"ppid,omitempty"`
	Cli   string   `json:"cli,omitempty"`
	Args  []string `json:"args,omitempty"`
	Pkg   string   `json:"pkg,omitempty"`
	Site  string   `json:"site,omitempty"`
	Op    string   `json:"op,omitempty"`
	Path  string   `json:"path,omitempty"`
	Path2 string   `json:"path2,omitempty"`
	N     int64    `json:"n,omitempty"`
	Flag  int      `json:"flag,omitempty"`
	Err   string   `json:"err,omitempty"`
	Key   string   `json:"key,omitempty"`
	Sum   string   `json:"sum,omitempty"`
	Code  int      `json:"code,omitempty"`
}

// Action is a decision for one parked event.
type Action struct {
	Kind  string `json:"kind"` // go | fail | short | torn | toolfail | kill
	Errno int    `json:"errno,omitempty"`
	N     int64  `json:"n,omitempty"`
}

func Go() Action { return Action{Kind: "go"} }

type state int

const (
	stRunning state = iota
	stParked
	stInExec
	stLockWait
	stGone
)

// Proc is one registered garble process.
type Proc struct {
	ID      string
	Client  *Client
	Pid     int
	Hello   Msg
	Seq     int  // number of gated events seen so far (hello is 0)
	Pending *Msg // the event it is parked at
	state   state
	conn    net.Conn
	w       *bufio.Writer
	Tool    string // "", compile, asm, link
	Pkg     string

	streaming bool // between Cmd.Start and Cmd.Wait: reads a child's pipe
}

// Client is one top-level garble command.
type Client struct {
	Tag    string
	Dir    string
	Args   []string
	Env    []string // complete environment except simulator variables
	RtSeed string   // VERIF_RTSEED ("" = leave runtime randomness alone)
	Watch  []string
	Stdin  []byte
	// StdinChunks, if set, is delivered through a pipe one chunk per write,
	// sleeping StdinGaps[i] milliseconds before chunk i.
	StdinChunks [][]byte
	StdinGaps   []int

	Stdout, Stderr bytes.Buffer
	ExitCode       int
	Killed         bool
	Done           bool
	cmd            *exec.Cmd
	pgid           int
	started        bool
}

// Step is one scheduling/fault decision (the replayable trace).
type Step struct {
	N       int    `json:"n"`
	Proc    string `json:"proc"`
	Seq     int    `json:"seq"`
	Site    string `json:"site,omitempty"`
	Op      string `json:"op"`
	Path    string `json:"path,omitempty"`
	Act     Action `json:"act"`
	Enabled int    `json:"enabled"`
	Choice  int    `json:"choice"`
}

// LogEntry is everything the simulator heard, in order.
type LogEntry struct {
	Step int    `json:"step"`
	Proc string `json:"proc"`
	Msg  Msg    `json:"msg"`
}

// Policy decides which enabled process proceeds and how.
type Policy interface {
	Pick(s *Sim, enabled []*Proc) (int, Action, error)
}

// Sim is one simulated execution.
type Sim struct {
	GarbleBin string
	Clients   []*Client
	Policy    Policy
	Serial    bool // single client with -p 1: at most one process can run, no quiescence probing
	Timeout   time.Duration
	RunDir    string // for the socket

	Steps    []Step
	StepAt   []time.Duration // wall offset of each step (not part of the trace)
	t0       time.Time
	Log      []LogEntry
	Procs    []*Proc
	Deadlock bool
	Stats    Stats

	ln        net.Listener
	inbox     chan inMsg
	byPid     map[int]*Proc
	idCount   map[string]int
	dirty     bool
	lockDirty bool
	deadline  time.Time
	// OnStep, if set, runs after each released step (state-level faults, monitors).
	OnStep func(s *Sim, st Step)
	// OnPark runs when a process parks at an event; BeforeRelease right before a
	// parked process is released (not for kills). Together they let a check
	// expose an intermediate state of an uninstrumented writer to the other
	// processes (e.g. a half-copied output while its producer has not returned).
	OnPark        func(s *Sim, p *Proc, ev *Msg)
	BeforeRelease func(s *Sim, p *Proc, ev *Msg)
}

type Stats struct {
	Steps          int
	ChoicePoints   int // steps with >= 2 enabled processes
	MaxEnabled     int
	QuiesceProbes  int
	Kills          int
	Faults         map[string]int
	ProcsSeen      int
	LockWaits      int
	CompileProcs   int
	AsmProcs       int
	LinkProcs      int
}

type inMsg struct {
	p      *Proc
	conn   net.Conn
	w      *bufio.Writer
	msg    *Msg
	eof    bool
	client *Client // client exit
}

var ErrInfra = errors.New("infrastructure error")

func infra(format string, a ...any) error {
	return fmt.Errorf("%w: %s", ErrInfra, fmt.Sprintf(format, a...))
}

func (s *Sim) logf(p *Proc, m Msg) {
	id := ""
	if p != nil {
		id = p.ID
	}
	s.Log = append(s.Log, LogEntry{Step: len(s.Steps), Proc: id, Msg: m})
}

// Run executes the simulation until every client has finished.
func (s *Sim) Run() error {
	if s.Timeout == 0 {
		s.Timeout = 10 * time.Minute
	}
	s.deadline = time.Now().Add(s.Timeout)
	s.t0 = time.Now()
	s.inbox = make(chan inMsg, 256)
	s.byPid = map[int]*Proc{}
	s.idCount = map[string]int{}
	s.Stats.Faults = map[string]int{}
	sock := filepath.Join(s.RunDir, "sim.sock")
	os.Remove(sock)
	ln, err := net.Listen("unix", sock)
	if err != nil {
		return infra("listen: %v", err)
	}
	s.ln = ln
	defer func() {
		ln.Close()
		os.Remove(sock)
		s.killAll()
	}()
	go s.acceptLoop(ln)

	for _, c := range s.Clients {
		if err := s.startClient(c, sock); err != nil {
			return err
		}
	}
	s.dirty = true
	for {
		s.drain(false)
		if s.allDone() {
			s.drainUntilQuiet()
			return nil
		}
		if time.Now().After(s.deadline) {
			return infra("watchdog: simulation exceeded %v (%s)", s.Timeout, s.describe())
		}
		if !s.quiescent() {
			s.drain(true)
			continue
		}
		if s.killTorn() {
			continue
		}
		enabled := s.enabled()
		if len(enabled) == 0 {
			if s.wakeLockWaiters() {
				continue
			}
			if s.anyLive() {
				// Nothing can run, nothing is running, yet some client is unfinished.
				// Give the OS a moment (a client may be between its last child and its
				// own exit), then call it a deadlock.
				if s.settle() {
					continue
				}
				s.Deadlock = true
				return nil
			}
			s.drain(true)
			continue
		}
		idx, act, err := s.Policy.Pick(s, enabled)
		if err != nil {
			return err
		}
		if err := s.apply(enabled, idx, act); err != nil {
			return err
		}
	}
}

func (s *Sim) describe() string {
	var b strings.Builder
	for _, p := range s.Procs {
		if p.state == stGone {
			continue
		}
		fmt.Fprintf(&b, "[%s st=%d", p.ID, p.state)
		if p.Pending != nil {
			fmt.Fprintf(&b, " at %s %s", p.Pending.Op, p.Pending.Site)
		}
		b.WriteString("] ")
	}
	return b.String()
}

func (s *Sim) startClient(c *Client, sock string) error {
	cmd := exec.Command(s.GarbleBin, c.Args...)
	cmd.Dir = c.Dir
	env := append([]string{}, c.Env...)
	env = append(env, "VERIF_SIM_SOCK="+sock, "VERIF_CLIENT="+c.Tag)
	if c.RtSeed != "" {
		env = append(env, "VERIF_RTSEED="+c.RtSeed)
	}
	if len(c.Watch) > 0 {
		env = append(env, "VERIF_WATCH="+strings.Join(c.Watch, ":"))
	}
	cmd.Env = env
	cmd.Stdout = &c.Stdout
	cmd.Stderr = &c.Stderr
	var stdinW *os.File
	if c.StdinChunks != nil {
		// A pipe the simulator owns: the chunking of the stream is ours to decide.
		pr, pw, err := os.Pipe()
		if err != nil {
			return infra("pipe: %v", err)
		}
		cmd.Stdin = pr
		stdinW = pw
		defer pr.Close()
	} else if c.Stdin != nil {
		cmd.Stdin = bytes.NewReader(c.Stdin)
	}
	cmd.SysProcAttr = &syscall.SysProcAttr{Setpgid: true}
	if err := cmd.Start(); err != nil {
		return infra("start client %s: %v", c.Tag, err)
	}
	if stdinW != nil {
		go func() {
			for i, ch := range c.StdinChunks {
				if i < len(c.StdinGaps) && c.StdinGaps[i] > 0 {
					time.Sleep(time.Duration(c.StdinGaps[i]) * time.Millisecond)
				}
				if _, err := stdinW.Write(ch); err != nil {
					break
				}
			}
			stdinW.Close()
		}()
	}
	c.cmd = cmd
	c.pgid = cmd.Process.Pid
	c.started = true
	go func() {
		err := cmd.Wait()
		code := 0
		if err != nil {
			if ee, ok := err.(*exec.ExitError); ok {
				code = ee.ExitCode()
			} else {
				code = -2
			}
		}
		c.ExitCode = code
		s.inbox <- inMsg{client: c}
	}()
	return nil
}

func (s *Sim) acceptLoop(ln net.Listener) {
	for {
		conn, err := ln.Accept()
		if err != nil {
			return
		}
		go func(conn net.Conn) {
			rd := bufio.NewReaderSize(conn, 1<<16)
			w := bufio.NewWriter(conn)
			var p *Proc
			for {
				line, err := rd.ReadBytes('\n')
				if err != nil {
					s.inbox <- inMsg{p: p, conn: conn, eof: true}
					return
				}
				m := new(Msg)
				if err := json.Unmarshal(line, m); err != nil {
					s.inbox <- inMsg{p: p, conn: conn, eof: true}
					return
				}
				if m.T == "hello" {
					p = &Proc{Pid: m.Pid, Hello: *m, conn: conn, w: w}
				}
				s.inbox <- inMsg{p: p, conn: conn, w: w, msg: m}
			}
		}(conn)
	}
}

func toolOf(args []string) (tool string, vfull bool, symabis bool) {
	for i, a := range args {
		if a == "toolexec" && i+1 < len(args) {
			tool = filepath.Base(args[i+1])
			rest := args[i+2:]
			for _, r := range rest {
				if r == "-V=full" {
					vfull = true
				}
				if r == "-gensymabis" {
					symabis = true
				}
			}
			return
		}
	}
	return "", false, false
}

func (s *Sim) register(p *Proc) {
	var c *Client
	for _, cl := range s.Clients {
		if cl.Tag == p.Hello.Cli {
			c = cl
		}
	}
	p.Client = c
	tool, vfull, sym := toolOf(p.Hello.Args)
	p.Tool = tool
	p.Pkg = p.Hello.Pkg
	base := p.Hello.Cli + "/"
	if tool == "" {
		base += "top"
	} else {
		base += tool + ":" + p.Hello.Pkg
		if vfull {
			base += ":V"
		}
		if sym {
			base += ":symabis"
		}
		if !vfull {
			switch tool {
			case "compile":
				s.Stats.CompileProcs++
			case "asm":
				s.Stats.AsmProcs++
			case "link":
				s.Stats.LinkProcs++
			}
		}
	}
	s.idCount[base]++
	p.ID = fmt.Sprintf("%s#%d", base, s.idCount[base])
	s.byPid[p.Pid] = p
	s.Procs = append(s.Procs, p)
	s.Stats.ProcsSeen++
}

func (s *Sim) handle(im inMsg) {
	switch {
	case im.client != nil:
		im.client.Done = true
		s.dirty = true
		s.lockDirty = true
	case im.eof:
		if im.p != nil && im.p.state != stGone {
			im.p.state = stGone
			im.p.Pending = nil
			delete(s.byPid, im.p.Pid)
			s.logf(im.p, Msg{T: "gone"})
		}
		s.dirty = true
		s.lockDirty = true
	case im.msg != nil:
		p := im.p
		if p == nil {
			return
		}
		m := im.msg
		switch m.T {
		case "hello":
			s.register(p)
			hm := *m
			hm.Op = "start"
			p.Pending = &hm
			p.state = stParked
			s.dirty = true
			s.logf(p, *m)
		case "ev":
			p.Seq++
			p.Pending = m
			if m.Op == "flock-blocked" {
				p.state = stLockWait
				s.Stats.LockWaits++
			} else {
				p.state = stParked
			}
			s.logf(p, *m)
			if s.OnPark != nil {
				s.OnPark(s, p, m)
			}
		case "note":
			if m.Op == "funlock" || m.Op == "exit" {
				s.lockDirty = true
			}
			s.logf(p, *m)
		}
	}
}

func (s *Sim) drain(block bool) {
	if block {
		select {
		case im := <-s.inbox:
			s.handle(im)
		case <-time.After(2 * time.Millisecond):
			return
		}
	}
	for {
		select {
		case im := <-s.inbox:
			s.handle(im)
		default:
			return
		}
	}
}

func (s *Sim) drainUntilQuiet() {
	for i := 0; i < 3; i++ {
		select {
		case im := <-s.inbox:
			s.handle(im)
			i = 0
		case <-time.After(2 * time.Millisecond):
		}
	}
}

func (s *Sim) allDone() bool {
	for _, c := range s.Clients {
		if !c.Done {
			return false
		}
	}
	return true
}

func (s *Sim) anyLive() bool { return !s.allDone() }

func (s *Sim) enabled() []*Proc {
	var out []*Proc
	for _, p := range s.Procs {
		if p.state == stParked {
			out = append(out, p)
		}
	}
	sort.Slice(out, func(i, j int) bool { return out[i].ID < out[j].ID })
	return out
}

// killTorn kills the client of any process that reports having performed a
// torn (partial) write: the decision was recorded when the write was released.
func (s *Sim) killTorn() bool {
	for _, p := range s.Procs {
		if p.state == stParked && p.Pending != nil && strings.HasSuffix(p.Pending.Op, "-torn-done") {
			s.killClient(p.Client)
			return true
		}
	}
	return false
}

func (s *Sim) wakeLockWaiters() bool {
	if !s.lockDirty {
		return false
	}
	s.lockDirty = false
	woke := false
	for _, p := range s.Procs {
		if p.state == stLockWait {
			p.state = stParked
			woke = true
		}
	}
	return woke
}

// settle waits briefly for stragglers; returns true if anything changed.
func (s *Sim) settle() bool {
	for i := 0; i < 100; i++ {
		select {
		case im := <-s.inbox:
			s.handle(im)
			return true
		case <-time.After(5 * time.Millisecond):
		}
		s.dirty = true
		if !s.quiescent() {
			return true
		}
	}
	return false
}

// quiescent reports whether no process of any client can make progress without
// a release from the simulator.
func (s *Sim) quiescent() bool {
	anyRegisteredRunning := false
	anyInExec := false
	for _, p := range s.Procs {
		switch p.state {
		case stRunning:
			anyRegisteredRunning = true
		case stInExec:
			anyInExec = true
		}
	}
	if anyRegisteredRunning {
		return false
	}
	if s.Serial {
		// One process at a time: a parked process means nothing else runs.
		for _, p := range s.Procs {
			if p.state == stParked {
				return true
			}
		}
		return false
	}
	if !s.dirty && !anyInExec {
		return true
	}
	if !s.dirty {
		// Nothing was released into an exec, no process came or went since the
		// last full probe that found the system quiescent.
		return true
	}
	s.Stats.QuiesceProbes++
	// Two consecutive probes must both find every process idle and see the same
	// set of processes: a go command that merely paused between reaping a child
	// and spawning the next one is caught by the second look.
	ok1, sig1 := s.probe()
	if !ok1 {
		return false
	}
	time.Sleep(2 * time.Millisecond)
	ok2, sig2 := s.probe()
	if !ok2 || sig1 != sig2 {
		return false
	}
	// Re-check that nothing arrived while probing.
	select {
	case im := <-s.inbox:
		s.handle(im)
		return false
	default:
	}
	s.dirty = false
	return true
}

// probe looks once at every process of every client's process group.
func (s *Sim) probe() (idle bool, signature string) {
	pgids := map[int]bool{}
	for _, c := range s.Clients {
		if c.started && !c.Done {
			pgids[c.pgid] = true
		}
	}
	if len(pgids) == 0 {
		return true, ""
	}
	procs := scanGroups(pgids)
	var sig strings.Builder
	for _, pi := range procs {
		fmt.Fprintf(&sig, "%d:%d;", pi.pid, pi.ppid)
	}
	ok := s.probeProcs(procs)
	return ok, sig.String()
}

func (s *Sim) probeProcs(procs []procInfo) bool {
	children := map[int][]procInfo{}
	for _, pi := range procs {
		children[pi.ppid] = append(children[pi.ppid], pi)
	}
	var goProcs []int
	for _, pi := range procs {
		if pi.state == 'Z' {
			// A zombie will be reaped by its parent, which then acts.
			return false
		}
		if rp, ok := s.byPid[pi.pid]; ok {
			switch rp.state {
			case stParked, stLockWait:
			case stInExec:
				if len(children[pi.pid]) == 0 {
					return false
				}
			default:
				return false
			}
			continue
		}
		if pi.comm == "go" {
			goProcs = append(goProcs, pi.pid)
			continue
		}
		return false // compile, asm, link, git, a garble process that has not registered yet...
	}
	for _, pid := range goProcs {
		// A child whose output the parent streams (Cmd.Start ... Cmd.Wait) blocks on
		// its pipe as soon as the parent parks at a gated call in between: it then
		// waits for us, through its parent, and must not hold up the release.
		streamedBy := false
		for _, pi := range procs {
			if pi.pid == pid {
				if rp, ok := s.byPid[pi.ppid]; ok && rp.streaming && rp.state == stParked {
					streamedBy = true
				}
			}
		}
		if streamedBy {
			if !goIdleRelaxed(pid, 3*time.Millisecond) {
				return false
			}
			continue
		}
		if len(children[pid]) == 0 {
			return false // a go command without children is working, not waiting
		}
		if !goIdle(pid, 3*time.Millisecond) {
			return false
		}
	}
	return true
}

func (s *Sim) reply(p *Proc, a Action) error {
	d := map[string]any{"d": a.Kind}
	if a.Errno != 0 {
		d["errno"] = a.Errno
	}
	if a.N != 0 {
		d["n"] = a.N
	}
	b, _ := json.Marshal(d)
	b = append(b, '\n')
	if _, err := p.w.Write(b); err != nil {
		return err
	}
	return p.w.Flush()
}

func (s *Sim) apply(enabled []*Proc, idx int, act Action) error {
	p := enabled[idx]
	ev := p.Pending
	st := Step{N: len(s.Steps), Proc: p.ID, Seq: p.Seq, Site: ev.Site, Op: ev.Op, Path: ev.Path, Act: act, Enabled: len(enabled), Choice: idx}
	s.Steps = append(s.Steps, st)
	s.StepAt = append(s.StepAt, time.Since(s.t0))
	s.Stats.Steps++
	if len(enabled) >= 2 {
		s.Stats.ChoicePoints++
	}
	if len(enabled) > s.Stats.MaxEnabled {
		s.Stats.MaxEnabled = len(enabled)
	}
	if act.Kind != "go" {
		s.Stats.Faults[act.Kind]++
	}
	if act.Kind == "kill" {
		s.killClient(p.Client)
		if s.OnStep != nil {
			s.OnStep(s, st)
		}
		return nil
	}
	if ev.Op == "funlock" {
		s.lockDirty = true
	}
	if s.BeforeRelease != nil {
		s.BeforeRelease(s, p, ev)
	}
	p.Pending = nil
	switch ev.Op {
	case "exec":
		p.state = stInExec
		s.dirty = true
	case "exec-start":
		p.state = stRunning
		p.streaming = true
		s.dirty = true
	case "exec-done":
		p.streaming = false
		p.state = stRunning
	default:
		p.state = stRunning
	}
	if err := s.reply(p, act); err != nil {
		// The process died under us (e.g. killed with its group).
		p.state = stGone
		s.dirty = true
	}
	if s.OnStep != nil {
		s.OnStep(s, st)
	}
	return nil
}

// killClient SIGKILLs the whole process tree of c and waits until it is gone.
func (s *Sim) killClient(c *Client) {
	if c == nil || c.Done {
		return
	}
	s.Stats.Kills++
	c.Killed = true
	syscall.Kill(-c.pgid, syscall.SIGKILL)
	deadline := time.Now().Add(20 * time.Second)
	for time.Now().Before(deadline) {
		select {
		case im := <-s.inbox:
			s.handle(im)
		case <-time.After(2 * time.Millisecond):
		}
		if c.Done && len(scanGroups(map[int]bool{c.pgid: true})) == 0 {
			break
		}
		syscall.Kill(-c.pgid, syscall.SIGKILL)
	}
	for _, p := range s.Procs {
		if p.Client == c && p.state != stGone {
			p.state = stGone
			p.Pending = nil
			delete(s.byPid, p.Pid)
		}
	}
	s.dirty = true
	s.lockDirty = true
}

func (s *Sim) killAll() {
	for _, c := range s.Clients {
		if c.started && !c.Done {
			syscall.Kill(-c.pgid, syscall.SIGKILL)
		}
	}
	for _, c := range s.Clients {
		if c.started && !c.Done {
			deadline := time.Now().Add(10 * time.Second)
			for !c.Done && time.Now().Before(deadline) {
				select {
				case im := <-s.inbox:
					s.handle(im)
				case <-time.After(5 * time.Millisecond):
				}
			}
		}
	}
}
