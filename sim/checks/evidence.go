package checks

import (
	"encoding/json"
	"fmt"
	"os"
	"path/filepath"
	"sort"
	"time"
)

// Evidence accumulates what a check run covered; written to evidence/<id>.json.
type Evidence struct {
	id, tier, level string
	seed            int64
	rule            string
	assumptions     []string

	Evaluations int
	SimRuns     int
	Steps       int
	ChoiceSteps int
	Violations  int
	KnownHits   int
	faults      map[string]int
	probes      map[string]int
	distinct    map[string]bool
	scheds      map[string]bool
	samples     []any
	caseSecs    float64
	wall        float64
	extra       map[string]any
	exhaustive  *bool
}

func newEvidence(chk Check, tier string, seed int64) *Evidence {
	return &Evidence{id: chk.ID(), tier: tier, level: chk.Level(), seed: seed, rule: chk.Rule(), assumptions: chk.Assumptions(),
		faults: map[string]int{}, probes: map[string]int{}, distinct: map[string]bool{}, scheds: map[string]bool{}}
}

func (ev *Evidence) add(r result) {
	o := r.o
	ev.Evaluations++
	ev.SimRuns += o.SimRuns
	ev.Steps += o.Steps
	ev.ChoiceSteps += o.Choice
	for k, v := range o.Faults {
		ev.faults[k] += v
	}
	for k, v := range o.Probes {
		ev.probes[k] += v
	}
	if o.NonTrivial && o.Fingerprint != "" {
		ev.distinct[o.Fingerprint] = true
	}
	if o.SchedHash != "" {
		ev.scheds[o.SchedHash] = true
	}
	if o.Sample != nil && (len(ev.samples) < 6 || (o.Violation != nil && len(ev.samples) < 10)) {
		ev.samples = append(ev.samples, o.Sample)
	}
	ev.caseSecs += r.dur.Seconds()
}

func (ev *Evidence) finish(env *Env, wall time.Duration) {
	ev.wall = wall.Seconds()
	ev.extra = env.Extra
	if v, ok := env.Extra["exhaustive"]; ok {
		if b, ok := v.(bool); ok {
			ev.exhaustive = &b
		}
	}
}

// sanity fails the run (exit 2) when the run explored nothing worth the name.
func (ev *Evidence) sanity() error {
	if ev.Evaluations == 0 {
		return fmt.Errorf("no case was evaluated")
	}
	if len(ev.distinct) < 2 {
		return fmt.Errorf("fewer than two distinct non-trivial cases were explored (%d)", len(ev.distinct))
	}
	if want, ok := ev.extra["fault_kinds_expected"].([]string); ok {
		for _, k := range want {
			if ev.faults[k] == 0 {
				return fmt.Errorf("fault kind %q was configured but never fired", k)
			}
		}
	}
	return nil
}

func (ev *Evidence) write() error {
	cov := map[string]any{
		"evaluations":         ev.Evaluations,
		"distinct_nontrivial": len(ev.distinct),
		"rule":                ev.rule,
		"samples":             ev.samples,
		"simulated_runs":      ev.SimRuns,
		"simulated_steps":     ev.Steps,
		"steps_with_choice":   ev.ChoiceSteps,
		"distinct_schedules":  len(ev.scheds),
		"faults_fired":        ev.faults,
		"probes_hit":          ev.probes,
		"known_finding_hits":  ev.KnownHits,
		"components": map[string]any{
			"real": []string{"garble (all packages, rewritten call targets only)", "go-internal cache/lockedfile/filelock", "cmd/go", "compile", "asm", "link", "git apply", "patched linker", "produced binaries"},
			"ours": []string{"verifrt shim", "runtime.rand seam", "scheduler", "fault injector", "reference builds", "oracles"},
			"stub": []string{"kill inside an uninstrumented writer is emulated as kill + truncation of its declared output", "cache ageing emulated by shifting mtimes"},
		},
	}
	cov["simulated_time"] = "no simulated clock: garble has no timers, deadlines or retries for these properties to depend on; progress is measured in gated events (simulated_steps). The one time-dependent behaviour, cache trimming after 5 days, is driven by ageing file mtimes by 7 days in the start states named 'aged'."
	if ev.wall > 0 {
		cov["runs_per_hour"] = int(float64(ev.SimRuns) / ev.wall * 3600)
		cov["cases_per_hour"] = int(float64(ev.Evaluations) / ev.wall * 3600)
	}
	if ev.exhaustive != nil {
		cov["exhaustive"] = *ev.exhaustive
	}
	ks := make([]string, 0, len(ev.extra))
	for k := range ev.extra {
		ks = append(ks, k)
	}
	sort.Strings(ks)
	for _, k := range ks {
		if k == "exhaustive" {
			continue
		}
		cov[k] = ev.extra[k]
	}
	if len(ev.samples) == 0 {
		cov["samples"] = []any{"(no sample recorded)"}
	}
	doc := map[string]any{
		"property_id": ev.id,
		"tier":        ev.tier,
		"seed":        ev.seed,
		"level":       ev.level,
		"coverage":    cov,
		"assumptions": ev.assumptions,
		"wall_s":      ev.wall,
		"violations":  ev.Violations,
	}
	dir := filepath.Join(outDir(), "evidence")
	os.MkdirAll(dir, 0o755)
	b, err := json.MarshalIndent(doc, "", " ")
	if err != nil {
		return err
	}
	return os.WriteFile(filepath.Join(dir, ev.id+".json"), b, 0o644)
}
