package engine

import (
	"bytes"
	"os"
	"path/filepath"
	"strconv"
	"strings"
	"time"
)

// procInfo is one line of a process-group scan.
type procInfo struct {
	pid, ppid, pgrp int
	comm            string
	state           byte
}

func readStat(pid int) (procInfo, bool) {
	b, err := os.ReadFile("/proc/" + strconv.Itoa(pid) + "/stat")
	if err != nil {
		return procInfo{}, false
	}
	// pid (comm) state ppid pgrp ...
	l := bytes.IndexByte(b, '(')
	r := bytes.LastIndexByte(b, ')')
	if l < 0 || r < 0 || r+2 >= len(b) {
		return procInfo{}, false
	}
	f := strings.Fields(string(b[r+2:]))
	if len(f) < 3 {
		return procInfo{}, false
	}
	pi := procInfo{pid: pid, comm: string(b[l+1 : r]), state: f[0][0]}
	pi.ppid, _ = strconv.Atoi(f[1])
	pi.pgrp, _ = strconv.Atoi(f[2])
	return pi, true
}

// scanGroups returns the live processes whose process group is in pgids.
func scanGroups(pgids map[int]bool) []procInfo {
	ents, err := os.ReadDir("/proc")
	if err != nil {
		return nil
	}
	var out []procInfo
	for _, e := range ents {
		n := e.Name()
		if n[0] < '0' || n[0] > '9' {
			continue
		}
		pid, err := strconv.Atoi(n)
		if err != nil {
			continue
		}
		pi, ok := readStat(pid)
		if !ok || !pgids[pi.pgrp] {
			continue
		}
		out = append(out, pi)
	}
	return out
}

// idle syscalls (x86_64): a thread blocked in one of these is waiting, not working.
var idleSyscalls = map[string]bool{
	"202": true, // futex
	"281": true, // epoll_pwait
	"232": true, // epoll_wait
	"247": true, // waitid
	"61":  true, // wait4
	"35":  true, // nanosleep
	"230": true, // clock_nanosleep
	"128": true, // rt_sigtimedwait
	"441": true, // epoll_pwait2
}

type threadSample struct {
	allIdle bool
	runNS   uint64
	threads int
}

func sampleThreads(pid int) (threadSample, bool) {
	dir := "/proc/" + strconv.Itoa(pid) + "/task"
	ents, err := os.ReadDir(dir)
	if err != nil {
		return threadSample{}, false
	}
	s := threadSample{allIdle: true}
	for _, e := range ents {
		t := filepath.Join(dir, e.Name())
		st, err := os.ReadFile(t + "/stat")
		if err != nil {
			continue // thread exited
		}
		r := bytes.LastIndexByte(st, ')')
		if r < 0 || r+2 >= len(st) {
			continue
		}
		if st[r+2] != 'S' {
			s.allIdle = false
		}
		sc, err := os.ReadFile(t + "/syscall")
		if err != nil {
			s.allIdle = false
		} else {
			f, _, _ := strings.Cut(string(sc), " ")
			if !idleSyscalls[strings.TrimSpace(f)] {
				s.allIdle = false
			}
		}
		if ss, err := os.ReadFile(t + "/schedstat"); err == nil {
			f, _, _ := strings.Cut(string(ss), " ")
			v, _ := strconv.ParseUint(f, 10, 64)
			s.runNS += v
		}
		s.threads++
	}
	return s, s.threads > 0
}

// goIdle reports whether an (uninstrumented) go command process is waiting for
// its children rather than working: every thread sleeps in a wait-type syscall
// and the process consumed (almost) no CPU over the sampling interval.
// goIdleRelaxed is goIdle for a process that may additionally be blocked
// writing to (or reading from) a pipe: all threads asleep, no CPU consumed.
func goIdleRelaxed(pid int, interval time.Duration) bool {
	asleep := func() (uint64, int, bool) {
		dir := "/proc/" + strconv.Itoa(pid) + "/task"
		ents, err := os.ReadDir(dir)
		if err != nil {
			return 0, 0, false
		}
		var run uint64
		n := 0
		for _, e := range ents {
			t := filepath.Join(dir, e.Name())
			st, err := os.ReadFile(t + "/stat")
			if err != nil {
				continue
			}
			r := bytes.LastIndexByte(st, ')')
			if r < 0 || r+2 >= len(st) || st[r+2] != 'S' {
				return 0, 0, false
			}
			if ss, err := os.ReadFile(t + "/schedstat"); err == nil {
				f, _, _ := strings.Cut(string(ss), " ")
				v, _ := strconv.ParseUint(f, 10, 64)
				run += v
			}
			n++
		}
		return run, n, n > 0
	}
	a, na, ok := asleep()
	if !ok {
		return false
	}
	time.Sleep(interval)
	b, nb, ok := asleep()
	return ok && na == nb && b-a < 100_000
}

func goIdle(pid int, interval time.Duration) bool {
	a, ok := sampleThreads(pid)
	if !ok || !a.allIdle {
		return false
	}
	time.Sleep(interval)
	b, ok := sampleThreads(pid)
	if !ok || !b.allIdle || b.threads != a.threads {
		return false
	}
	return b.runNS-a.runNS < 100_000
}
