module example.test/p2

go 1.26
