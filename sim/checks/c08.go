package checks

import (
	"encoding/json"
	"fmt"
	"math/rand"
	"os"
	"path/filepath"
	"sort"
	"strings"

	"verif.local/sim/engine"
	"verif.local/sim/world"
)

// C08 — types that reach reflection keep their names (order-, cache- and
// schedule-dependence).
//
// The reflection analysis walks Go maps (package members, known reflect APIs);
// which types it ends up protecting must not depend on that order, on whether
// a dependency's facts came from the cache or were recomputed recursively, or
// on the schedule. Each catalogue program prints one line per flow path; it is
// built under many runtime seeds (each one a different, replayable map
// iteration order) and cache states, and every line must equal the plain
// build's line.

func init() { Registry["C08"] = func() Check { return &c08{} } }

type c08 struct{}

func (c08) ID() string    { return "C08" }
func (c08) Level() string { return "exploration" }
func (c08) Rule() string {
	return "case = (catalogue program, configuration, runtime seed = iteration order of every map in every garble process, cache state in {user-cold, dependency facts lost then recomputed recursively while only the dependant is rebuilt}, -p, schedule). Catalogue entries (one output line each): direct, one/two/three helpers, interface, pointer, slice, variadic, generic function, generic type, JSON, lookup by name, embedded, declared in dependant, reflected inside the declaring package, store-then-call block, call result passed to a reflecting API. Oracle: every line equals the plain build's line. Non-trivial = runtime seed differs from the canonical one or the cache state is not user-cold; distinct = distinct (program, configuration, seed, cache state, schedule)."
}
func (c08) Assumptions() []string {
	return []string{
		"the program-shape dimension of C08 (arbitrary struct shapes) is a pure function of the program and is covered only by this fixed catalogue",
		"the injected run-time name replacer is exercised only with the name pairs these programs produce",
	}
}

func (c08) Prepare(e *Env) error {
	n := 9
	if e.Tier == "thorough" {
		n = 36
	}
	st, err := RtSeamSelfTest(n)
	if err != nil {
		return err
	}
	e.SetExtra("runtime_seam_selftest", st)
	_, err = e.Template(c06TmplCfgs(e.Tier)...)
	return err
}

type c08Params struct {
	Prog   string    `json:"prog"`
	Cfg    string    `json:"cfg"`
	Tier   string    `json:"tier"`
	RtSeed string    `json:"rtseed"`
	Cache  string    `json:"cache"` // user-cold | deps-lost
	P      int       `json:"p"`
	Sched  SchedSpec `json:"sched"`
}

func (c c08) Generate(e *Env) ([]*Case, error) {
	rng := rand.New(rand.NewSource(e.Seed))
	thorough := e.Tier == "thorough"
	var cases []*Case
	add := func(p c08Params) {
		p.Tier = e.Tier
		if p.P == 0 {
			p.P = 1
		}
		if p.Sched.Kind == "" {
			p.Sched.Kind = "canonical"
		}
		cases = append(cases, &Case{Property: "C08", Kind: "reflect", Seed: e.Seed, Params: mustJSON(p)})
	}
	r := 16
	if thorough {
		r = 72
	}
	for i := 0; i < r; i++ {
		seed := fmt.Sprint(100 + rng.Intn(1<<30))
		if i == 0 {
			seed = "1"
		}
		p := c08Params{Prog: "p3", Cfg: "default", RtSeed: seed, Cache: "user-cold"}
		if i%4 == 3 {
			p.Cache = "deps-lost"
		}
		if i%5 == 4 {
			p.P = 4
			p.Sched = SchedSpec{Kind: []string{"random", "sticky", "pct"}[rng.Intn(3)], Seed: rng.Int63()}
		}
		add(p)
	}
	// The p1 diamond (types declared in dependencies at three depths, JSON) and other configurations.
	n := 4
	if thorough {
		n = 16
	}
	for i := 0; i < n; i++ {
		cache := "user-cold"
		if i%2 == 1 {
			cache = "deps-lost"
		}
		add(c08Params{Prog: "p1", Cfg: "default", RtSeed: fmt.Sprint(100 + rng.Intn(1<<30)), Cache: cache})
	}
	cfgs := []string{"literals", "seedA"}
	if thorough {
		cfgs = []string{"literals", "seedA", "tiny", "gogarble", "lit-seedA"}
	}
	for _, cfg := range cfgs {
		for i := 0; i < n/2; i++ {
			add(c08Params{Prog: "p3", Cfg: cfg, RtSeed: fmt.Sprint(100 + rng.Intn(1<<30)), Cache: "user-cold"})
		}
	}
	return cases, nil
}

func diffLines(got, want string) []string {
	g := strings.Split(strings.TrimRight(got, "\n"), "\n")
	w := strings.Split(strings.TrimRight(want, "\n"), "\n")
	var bad []string
	for i := 0; i < len(w) || i < len(g); i++ {
		var gl, wl string
		if i < len(g) {
			gl = g[i]
		}
		if i < len(w) {
			wl = w[i]
		}
		if gl != wl {
			name, _, _ := strings.Cut(wl, ":")
			if name == "" {
				name = fmt.Sprintf("line%d", i)
			}
			bad = append(bad, name+" | got: "+gl+" | want: "+wl)
		}
	}
	return bad
}

func (c c08) Run(e *Env, cs *Case) (*Outcome, error) {
	var p c08Params
	if err := json.Unmarshal(cs.Params, &p); err != nil {
		return nil, err
	}
	cfg, _ := c06Config(p.Cfg)
	tcfgs := c06TmplCfgs(p.Tier)
	tmpl, err := e.Template(tcfgs...)
	if err != nil {
		return nil, err
	}
	w, err := world.New(e.Bin, "c08")
	if err != nil {
		return nil, err
	}
	defer w.Close()
	w.RtSeed = p.RtSeed
	if err := w.Load(tmpl); err != nil {
		return nil, err
	}
	src, err := PrepareSource(w, p.Prog, p.Prog, nil)
	if err != nil {
		return nil, err
	}
	o := &Outcome{Faults: map[string]int{}, Probes: map[string]int{}, Traces: map[string][]engine.Step{}}
	o.Fingerprint = string(cs.Params)
	o.NonTrivial = p.RtSeed != "1" || p.Cache != "user-cold"
	out := filepath.Join(w.Out, "bin")
	var edits []Edit
	build := func(label string, pn int, sched SchedSpec) (*engine.Client, *engine.Sim, error) {
		cl := w.Client("A", src, cfg, "build", fmt.Sprintf("-p=%d", pn), "-o", out, ".")
		s, err := runSim(w, []*engine.Client{cl}, sched.Policy(), pn <= 1, cs.Traces[label], nil)
		if err != nil {
			return nil, nil, err
		}
		o.SimRuns++
		o.Steps += len(s.Steps)
		o.Choice += s.Stats.ChoicePoints
		o.Traces[label] = s.Steps
		return cl, s, nil
	}
	if p.Cache == "deps-lost" {
		c0, _, err := build("first", 1, SchedSpec{Kind: "canonical"})
		if err != nil {
			return nil, err
		}
		if c0.ExitCode != 0 {
			o.Violation = &Violation{Class: "build-failed", Key: "build-failed/" + p.Prog + "/" + p.Cfg, Detail: shortErr(c0.Stderr.String())}
			return o, nil
		}
		// Lose every garble cache entry the first build added (the facts of the
		// dependencies), then edit only main: its dependencies stay GOCACHE hits and
		// their facts must be recomputed recursively.
		tb := map[string]bool{}
		for _, f := range world.ListFiles(filepath.Join(tmpl.Dir, "garblecache", "build")) {
			tb[f] = true
		}
		n := 0
		for _, f := range world.ListFiles(filepath.Join(w.GarbleCache, "build")) {
			if !tb[f] {
				os.Remove(filepath.Join(w.GarbleCache, "build", f))
				n++
			}
		}
		o.Probes["dependency-facts-deleted"] += n
		ed := Edit{Pkg: ".", Kind: "body", N: 9}
		if err := ApplyEdit(src, ed); err != nil {
			return nil, err
		}
		edits = append(edits, ed)
	}
	cl, s, err := build("build", p.P, p.Sched)
	if err != nil {
		return nil, err
	}
	o.SchedHash = schedHash(s.Steps)
	for _, le := range s.Log {
		if le.Msg.T == "note" && le.Msg.Op == "cache-put" && p.Cache == "deps-lost" {
			o.Probes["facts-recomputed"]++
		}
	}
	if cl.ExitCode != 0 {
		o.Violation = &Violation{Class: "build-failed", Key: "build-failed/" + p.Prog + "/" + p.Cfg, Detail: shortErr(cl.Stderr.String())}
		return o, nil
	}
	plain, err := e.Plain(p.Prog, edits, cfg.BuildFlags, "")
	if err != nil {
		return nil, err
	}
	so, rc := RunBinary(out)
	o.Sample = map[string]any{"params": p, "lines": len(strings.Split(so, "\n"))}
	if so == plain.Stdout && rc == plain.RunExit {
		return o, nil
	}
	bad := diffLines(so, plain.Stdout)
	var names []string
	for _, b := range bad {
		n, _, _ := strings.Cut(b, " | ")
		names = append(names, n)
	}
	sort.Strings(names)
	o.Probes["wrong-lines"] += len(bad)
	for _, n := range names {
		o.Probes["wrong:"+p.Prog+"/"+n]++
	}
	if len(bad) == 0 {
		bad = []string{fmt.Sprintf("exit-status | got: %d | want: %d", rc, plain.RunExit)}
	}
	if strings.HasPrefix(p.Cfg, "gogarble") {
		// With a GOGARBLE subset the reflecting packages (main, util) are not
		// obfuscated and therefore not analysed: every entry fails alike, for one
		// reason, so it is one violation keyed by the configuration.
		o.Violation = &Violation{Class: "reflect-output-differs", Key: "reflect-output-differs/" + p.Prog + "/gogarble-subset",
			Detail: fmt.Sprintf("%s under %s (GOGARBLE covers only the package declaring the types): %d of the catalogue lines differ from the plain build, e.g. %s", p.Prog, p.Cfg, len(bad), bad[0])}
		return o, nil
	}
	// One violation per catalogue entry, so that each is matched (or not) against
	// the known findings on its own.
	for _, b := range bad {
		name, _, _ := strings.Cut(b, " | ")
		v := &Violation{Class: "reflect-output-differs", Key: "reflect-output-differs/" + p.Prog + "/" + name,
			Detail: fmt.Sprintf("%s under %s, runtime seed %s, cache %s: %s", p.Prog, p.Cfg, p.RtSeed, p.Cache, b)}
		if o.Violation == nil {
			o.Violation = v
		} else {
			o.More = append(o.More, v)
		}
	}
	return o, nil
}

// Summary classifies each failing catalogue entry: failing under every runtime
// seed = a shape the analysis never handles; failing under some = order-dependent.
func (c c08) Summary(rs []result) any {
	total := map[string]int{}
	wrong := map[string]int{}
	for _, r := range rs {
		if r.err != nil || r.o == nil {
			continue
		}
		var p c08Params
		if json.Unmarshal(r.c.Params, &p) != nil {
			continue
		}
		total[p.Prog]++
		for k, n := range r.o.Probes {
			if strings.HasPrefix(k, "wrong:") && n > 0 {
				wrong[strings.TrimPrefix(k, "wrong:")]++
			}
		}
	}
	out := map[string]string{}
	for k, n := range wrong {
		prog, _, _ := strings.Cut(k, "/")
		kind := "order-dependent"
		if n == total[prog] {
			kind = "every runtime seed (shape not handled)"
		}
		out[k] = fmt.Sprintf("wrong in %d of %d builds: %s", n, total[prog], kind)
	}
	return out
}

func (c c08) Shrink(cs *Case) []*Case {
	var p c08Params
	if json.Unmarshal(cs.Params, &p) != nil {
		return nil
	}
	var out []*Case
	mk := func(q c08Params) {
		nc := *cs
		nc.Params = mustJSON(q)
		nc.Traces = nil
		out = append(out, &nc)
	}
	if p.P > 1 {
		q := p
		q.P = 1
		q.Sched = SchedSpec{Kind: "canonical"}
		mk(q)
	}
	if p.Cache != "user-cold" {
		q := p
		q.Cache = "user-cold"
		mk(q)
	}
	return out
}
