package mid1

import (
	"example.test/p1/leaf"
)

// Mid1 is declared here and reflected through leaf.Describe via Show.
type Mid1 struct {
	L   leaf.Leaf
	Tag string
}

// Show forwards to the reflecting helper one level down.
func Show(v any) string {
	return "mid1:" + leaf.Describe(v)
}

func Make(tag string) Mid1 {
	return Mid1{L: leaf.New(tag, len(tag)), Tag: tag}
}

// Scramble is rewritten by control-flow obfuscation when that is enabled.
//
//garble:controlflow flatten_passes=1 junk_jumps=2 block_splits=2
func Scramble(n int) int {
	acc := 1
	for i := 0; i < n; i++ {
		if i%3 == 0 {
			acc += i * 7
		} else if i%3 == 1 {
			acc ^= i << 2
		} else {
			acc -= i
		}
	}
	return acc
}
